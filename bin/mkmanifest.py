#!/usr/bin/env python3
# Regenerates /verif/MANIFEST.json from the table below (single source of truth for the interface).
import json, subprocess
props=[json.loads(l) for l in open('/verif/properties.jsonl')]
MC="stateless model checking: exhaustive schedule enumeration (DFS, preemption/fault-bounded) of the real implementation under a cooperative scheduler"
ES="explicit-state model checking: breadth-first search over operation histories of the real object in lock-step with a reference model, deduplicated on the pair (canonical heap, model state)"
E3T="bounded exhaustive enumeration of inputs (full ranges / boundary alphabets / all terms up to a depth) on the real code against an independent reference encoder or the stated laws"
checks={
 "C01":dict(engine="E3",cat="exploration",tech=E3T,
   text="every 16- and 24-bit pattern (and every 32-bit pattern in the thorough tier), boundary alphabets for 40/64-bit and float domains, all blob/text/array length thresholds, the little-endian helpers, and every write program of length <= 3 (4 thorough) over a 26-operation alphabet are encoded by golib and compared byte for byte with an independent reference encoder, Size() after every write, values and Available() after every read and the values again after the remaining reads; every program of length <= 2 is also read through the network form of the input from a connection delivering the stream in every fragment pattern of length <= 3 over {1,2,3,7,all} bytes; the static packing helpers against encoding/binary; decimal arrays of up to 3 elements over every decimal class",
   note="64-bit domains by boundary alphabet, not range; quick tier covers 32-bit domains by boundary alphabet plus dense bands around decimal class borders",ref="DESIGN.md 4 C01"),
 "C02":dict(engine="E3",cat="exploration",tech=E3T,
   text="all 256 type codes probed; every value term up to depth 2 (3 thorough) and width 2 (3) over the scalar alphabets of all 20 types, plus shape cases (sizes around table growth and count classes, colliding and sign-colliding keys, the empty-string and zero keys in first and second position, nesting depth 64): bytes equal the reference encoder's, decode is structurally equal with order preserved, consumes exactly, re-encodes identically; the typed map helpers agree with the generic pair; two uses of the codec do not disturb each other (every ordered pair of scalar values)",
   note="scalar payloads from boundary alphabets",ref="DESIGN.md 4 C02"),
 "C11":dict(engine="E2+E1",cat="model_checking",tech=ES+"; "+MC,
   text="sequential: BFS over put/put-force/get-no-wait/get-timeout/clear/set-capacity histories of both queue types against a FIFO model with refusal/eviction callbacks and virtual-time timeouts; concurrent: every schedule (preemption bound 2 quick / 3 thorough) of 1-2 producers and 1-2 blocking or timed consumers, checked for exactly-once accounting, per-producer order, refusals, early time-outs, stranded consumers, blocking gets returning nil and boundedness (consumers that take nothing: what is queued never exceeds the capacity); every element a forced put evicts must reach the overflow callback, and a queue shrunk below its content refuses plain puts",
   note="virtual time (a sleep takes >= 1 ms); element identities reused after leaving the queue; capacities 0-3",ref="DESIGN.md 4 C11"),
 "C13":dict(engine="E2+E3",cat="model_checking",tech=ES+"; "+E3T,
   text="BFS over add/set/get/add-all/to-array histories of the five typed lists (every constructor capacity, indices at -1/0/size-1/size/cap-1/cap, bulk adds across the grow-by-half steps, wire round trip in every state) and of the linked list against slice models; every array up to length 5 (7) over a 4-value alphabet sorted in both directions alone and with every child list of every type; every index list up to length 3 (4) for filtering; every table of up to 3 (4) rows over two-valued key columns of every pair of list types sorted through StatGeneralPack in every direction combination, directly and after a trip over the wire",
   note="NaN excluded as the property says; string<->number conversions judged only for parse-back equality",ref="DESIGN.md 4 C13"),
 "C14":dict(engine="E2+E3",cat="model_checking",tech=ES+"; "+E3T,
   text="for every precision 4..16: BFS to a fixpoint over Offer/OfferLong sequences of a colliding item alphabet with state key GetBytes(), every state compared with the byte form of an independent reference counter of the set offered (so order and duplicates cannot matter), rebuild from bytes preserves state and estimate; Merge/AddAll of every pair (triple) of subsets equals the union counter, leaves inputs untouched and yields a counter of its own (offers to it never reach an input, also for Merge() of one counter with nothing); every item of a 2^20..2^24 range (2^24..2^32 thorough) updates exactly the reference register with the reference rank; estimate within bound on three deterministic families up to 6m items",
   note="the estimate clause is statistical: checked on deterministic families with stated generous constants",ref="DESIGN.md 4 C14"),
 "C15":dict(engine="E3",cat="exploration",tech=E3T,
   text="Hash == CRC-32/IEEE, Hash64/Hash64v2 == reference CRC variants, Hash64v2 == Hash64V2, murmur 32/64 == independent re-implementations, HashCode == polynomial, on every byte string of length <= 2 (3 thorough, i.e. every non-ASCII byte for the string forms) and 1200 longer family members; MurmurHash on 2^24 (2^32) integers; the 64-bit murmur at every prefix length of buffers up to 40 bytes; HashAddr against its definition; base-32 identifier text is a bijection with the documented forms on [-2^20,2^20] (2^26), +-32^k+-64 and extremes; compose/split and IPv4 conversions are mutual inverses; SHA-256 digests of the output tables pin the values",
   note="murmur references are re-implementations (no external spec offline); golden digests were taken from the pinned tree",ref="DESIGN.md 4 C15"),
 "C16":dict(engine="E2+E1",cat="model_checking",tech=ES+"; "+MC,
   text="defaults observed on a fresh GetInstance; every Append/SendDirect history up to length 3 (4) over record sizes around the thresholds, record-time steps 0/maxWait-1/maxWait, five settings and both client behaviours (consuming / retaining) on the real sender: exactly-once, in order, decodable, RecordCount, compression iff payload >= threshold, immutability after hand-over, flush deadlines, and a threshold sweep at payload length L-1/L/L+1; every schedule (preemption bound 1, thorough 2) of 1-2 producers, the real background goroutine on virtual time and a stopper (after drain, or at any point): nothing accepted before the stop is left behind; two scenarios with ApplyConfig shortening the waiting time while the sender runs (the idle flush must follow it, judged on virtual hand-over times in executions without a time jump)",
   note="virtual time; in-memory recording client; ApplyConfig is exercised for the waiting time only; the race mode of the explorer runs as a premise check over a subset of the scenarios and lists the unsynchronised ApplyConfig as information",ref="DESIGN.md 4 C16"),
 "C17":dict(engine="E1+E3",cat="model_checking",tech=MC+"; exhaustive products for retention and the read window",
   text="ten closed scenarios (1-2 logging goroutines x 1-5 calls at all levels, the rotation cycle, the clock crossing midnight by half a day and by seconds, rotation on/off, interval 0/10 s) on an in-memory file system whose operations are scheduling points: every schedule within preemption bound 2 (3) is run on the real logger and the files are read back (every gated line exactly once, whole, per-thread order, names, new-day placement); retention over every 1- and 2-file directory, the full 13-name directory and its one-less variants x 3 clocks x 3 keep-days x rotation; suppression over 1..160 distinct ids at one instant with repeats inside and after the interval; every history of length <= 3 of rotation toggles, lines and a second logger object on the undated file (the in-memory files honour the open flags); read window over 4 sizes x 6 end positions x 7 lengths x 7 names incl. traversal and absolute paths",
   note="in-memory file system model; the 10 s loop is replaced by a cycle thread calling the same function through a verif hook; the race mode of the explorer runs as a premise check over the line scenarios (no unsynchronised site found)",ref="DESIGN.md 4 C17"),
 "C18":dict(engine="E2+E4",cat="model_checking",tech=ES+"; crash-image enumeration over the write-back's file-operation log",
   text="every history up to length 3 (4) of external edits (5 contents x modification times +1 ms/+0.5 s/+1 s/+4 s/-30 min), clock advances and reload ticks on a real scratch file with a virtual clock, followed by two quiet polls: every key=value of the file visible, observer notified and up to date; observer registration histories (two names, three objects, length <= 3): the observer registered last under a name is notified; deletions of the file in the histories; every schedule of a reload (three keys changed at once) against String()/ToString() judged for old-or-new snapshots, with sync.RWMutex modelled as a scheduling point; 16 values x 7 typed getters against parse-or-default; write-back over 6 files x 12 value maps x 4 option sets (other keys, written values, comments, order); every prefix of the write-back's operation log with the write torn at 0/1/line ends/len-1/len must leave the old or the new complete content",
   note="the concurrent-getter clause is decided in the race mode of the explorer (every schedule of the reload cycle against every getter in a -race build whose detector sees only the library's own synchronisation; it found the unguarded map, repaired in cb2ae1e); known findings: non-atomic write-back, double backslash, leading space",ref="DESIGN.md 4 C18"),
 "C19":dict(engine="E3",cat="exploration",tech=E3T,
   text="every day of 2000-2099 x 16 boundary instants (thorough: every second of the century): all calendar helpers equal time.Time in UTC and the unit functions equal floor((t-base)/step); every pattern up to length 4 (5) over the seven field letters and five literals x 40 instants x 6 clock answers: Parse(FormatTime(t)) agrees with t on every field present in the pattern",
   note="fields absent from a pattern come from the clock and are not compared; clock is an enumerated environment answer through the vtime seam",ref="DESIGN.md 4 C19"),
 "C20":dict(engine="E3",cat="exploration",tech=E3T,
   text="every ordered pair and every triple of a universe of ~480 values (all 20 types, nil vs empty payloads, +-0.0, values more than half the range apart, integers that differ but are equal as float64, views of one shared buffer next to copies, summaries differing in one field, containers of equal size with different keys / orders / element types) is evaluated on the real Equals/CompareTo: totality, reflexivity, equality with the decoded copy, symmetry, transitivity, sign reversal, zero-iff-equal for scalars, type-consistent cross-type order",
   note="NaN only for totality; known findings (map comparison has no canonical order) are listed in known_findings.jsonl",ref="DESIGN.md 4 C20"),
 "C03":dict(engine="E3",cat="exploration",tech=E3T,
   text="all 65536 type codes probed; for each of 37 pack types (factory-registered and unregistered server-monitoring packs) every object with at most 1 (2 thorough) reflected field slots deviating from two bases over boundary alphabets is encoded, decoded, checked for same concrete type, exact consumption and byte-identical re-encode; a pinned carried-field baseline and a distinguishing-value baseline (every single deviation whose bytes differed from its base's at the pin must still differ) catch a field or value dropped by the writer, or by writer and reader alike; record-list packs (0-3 records, every single-field deviation of each record type, every record version), zip / log-sink zip (every inner sequence up to length 2 (3), thresholds len-1/len/len+1) return records unchanged, in order and stamped, also when two compressed containers are filled before either is serialised, through both ways of storing records; the OS-specific element records of the system-base pack for every OS code; two uses of the codec do not disturb each other",
   note="constructor invariants preserved; wire-equivalence instead of field equality; known findings: ServerInfoPack writer/reader disagreement, CounterPack1 poid meter",ref="DESIGN.md 4 C03"),
 "C04":dict(engine="E4",cat="fault_enumeration",tech="fault enumeration: every truncation point of every corpus encoding and every hostile overwrite window, decoded by the real decoders; allocation measured per decode; worker processes restarted after a fatal error and the fatal input reported",
   text="corpus of ~4600 distinct valid encodings (values, 37 pack types with every single-slot deviation, steps, transaction/service records, UDP packs per family); every strict prefix (777k) must end in a recovered panic; every primitive read on every short buffer; all unknown value/step/pack tags; hostile 1/2/4/5-byte overwrites (16 Mi- and 2^31-scale counts raw and as decimals, a blob prefix forced into its 4-byte form) at every offset (quick: every offset of the longest <= 1 KiB encoding per kind, first 48 offsets of two more) with the bytes allocated during the decode bounded by 64*len+1MiB, in single-threaded workers that are restarted after a fatal out-of-memory and report the killing input; the same decoders over the network form of the input: a strict prefix followed by a clean close must fail at every cut point",
   note="16-bit counts may pre-allocate a few hundred KiB (inside the 1 MiB slack); after ten allocation violations a worker stops its pass (only reached on a broken tree)",ref="DESIGN.md 4 C04"),
 "C05":dict(engine="E3",cat="exploration",tech=E3T+"; bytes captured behind the real client on an in-memory network",
   text="every object of the eight pinned pack types with at most 1 (2) reflected slots deviating from two bases (both header forms, every decimal class of the project code, nil/empty optional sections, the counter pack's db-pool/netstat/websocket/meter sections) is encoded and compared byte for byte with an independent reference encoder, then sent through the real OneWayTcpClient; the bytes the fake peer receives must equal the reference frame; plus all combinations of 5 default licences x 5 per-send licences x 12 project codes, plus every history of length <= 4 (5) of sends and licence changes (field assignment, ApplyConfig) on one client object; the header helpers of DataOutputX (WriteHeader/WriteOneWayHeader/WriteSecureHeader) against the reference frame, Size() included",
   note="reference encoders written from DESIGN.md Appendix C; no protocol document offline",ref="DESIGN.md 4 C05"),
 "C06":dict(engine="E1",cat="model_checking",tech=MC,
   text="20 closed scenarios (direct mode with 1-3 senders x 1-3 packs, queue mode with the real background goroutine for queue sizes 1/2/1000, SendAndClear), healthy and with network faults (dial failure, reset after a byte offset of a write - every offset for the single-sender scenarios, a boundary set otherwise - and deadline errors): every execution within preemption bound 2 (queue mode 1) and fault bound 1 (thorough 3/2) is run on the real client; per connection the byte log must parse into whole reference frames of exactly one send each, no duplicates, real-time order, nil-returning direct sends delivered, nothing lost without faults; three healthy scenarios with a 2.3 MB message (larger than the client's write buffer) before/between/after small ones, direct and through SendAndClear",
   note="in-memory network; virtual time; search sharded over 16 processes at deviation depth 2 (exact); the race mode of the explorer runs as a premise check over the scenarios (no unsynchronised site found after fix 6123db0)",ref="DESIGN.md 4 C06"),
 "C07":dict(engine="E3",cat="exploration",tech=E3T,
   text="all 256 type bytes probed (18 types); versions = every literal compared with Ver in the udp sources +-1 plus family borders (~60); for every (type, version) every field assignment with at most 1 (2) deviating slots is written and read back at the same version (consumed exactly, byte-identical re-encode, judged after Process() where Process completes decoding); every acquire/fill/release history up to depth 4 (6) over two handles returns clean packs and the released object itself is inspected; the distinguishing-value baseline per (type, version); every connection string of up to 3 (4) key=value tokens with every choice among four separators at every junction loses its password value after Process() at Go/PHP versions and is unchanged at the others, also with SQL texts of 32767/32768/32769/65535 bytes",
   note="version list is regenerated from /repo sources at run time; password key matching is the literal key 'password'",ref="DESIGN.md 4 C07"),
 "C08":dict(engine="E3",cat="exploration",tech=E3T,
   text="all 256 step tags probed; every step type and HttpcStepX version with at most 1 (2) reflected slots deviating from two bases round-trips (same type, consumed exactly, byte-identical re-encode); every stream of up to 3 (4) step instances over two instances per creatable type is decoded step by step with offset bookkeeping; all 32 combinations of the optional groups of a transaction record (records as built must come back field for field, a nil-valued custom field as the empty text) plus deviations, with the documented error-level defaulting; the distinguishing-value baseline; two uses of the step codec do not disturb each other; the three service types; profile / step-split / error-snap packs return their step blobs decodable to the same steps",
   note="SqlStep_3 does not implement the Step interface and is not part of a stream",ref="DESIGN.md 4 C08"),
 "C09":dict(engine="E2",cat="model_checking",tech=ES,
   text="every operation history up to the stated depth (fixpoint where the alphabet is finite) over every public method of the 13 linked types, every constructor (capacity x load factor) and prefilled states around the growth thresholds, executed on the real type and compared step by step and state by state with an insertion-ordered dictionary model",
   note="bounds: 3 keys (colliding in bucket 0 of the 101- and 203-bucket tables, plus the empty string / extreme keys) x 2 values, depth 5 quick / 6-7 thorough; values 1 and 0 (the 'no value' answer is a legal value); the bound may be lowered below the size (the next insertion trims; only sorting an over-full structure is a disabled transition); lenient points of the model are listed in DESIGN.md Appendix A; ToString and serialisation are not operations of this property",ref="DESIGN.md 4 C09"),
 "C10":dict(engine="E1",cat="model_checking",tech=MC,
   text="every schedule (within the stated preemption bound) of every small concurrent scenario over the point operations of all 20 collection types is executed on the real code under a controlled scheduler and compared with the sequential executions of the same operations (results, real-time order, final canonical heap); every exported method is run once under the scheduler for self-deadlock, and every whole-structure operation against one mutator of each kind with a scheduling point while a lock is held (no thread may end blocked on a lock)",
   note="linearizability pass: code between two sync operations is atomic; the data-race clause is decided by the race mode (the same explorer in a -race build whose hand-offs are hidden from the detector and whose modelled primitives announce the library's happens-before edges: every pair of point operations, preemption bound 2); 30 unordered-read races in the hash maps/sets are known findings (the queues' and the list's were fixed: 6123db0, 950e56e); specification = the real type run sequentially; bounds: 2 colliding keys, start states empty/1/2 entries/at the growth threshold/bounded and full, 2x1 all interleavings, 2x2 and 3x1 with preemption bound 2 (quick) / unbounded and 3 (thorough)",ref="DESIGN.md 4 C10"),
 "C12":dict(engine="E2",cat="model_checking",tech=ES,
   text="every operation history up to the stated depth over every public method of IntIntMap, IntKeyMap, IntSet, StringSet on the real type against a mathematical map/set model (enumerations compared as multisets), plus ToBytes->ToObject equality of the int-to-int map in every reached state (stored zero values included)",
   note="bounds: 3-4 keys x 2 values, every constructor, prefill around growth thresholds, depth 5 quick / 6-7 thorough",ref="DESIGN.md 4 C12"),
}
# additions of the sixth wave of seeded changes (appended to the texts above)
extra={
 "C01":"; the size-limited reader ReadIntBytesLimit as the matching read of WriteIntBytes (limit = length, +1, +2^20)",
 "C03":"; containers x inner packs that carry an identity of their own (none / complete / node only)",
 "C05":"; as-built bodies: reference written from the arguments of the builder methods - all histories (<= 3) of AddText/AddTexts (batches around 32/64) on text packs from every source, all histories (<= 2) of PutTag/Put and PutString/PutLong/Put/SetMapValue",
 "C07":"; password masking at every version of the alphabet for all three SQL/DBC pack types",
 "C14":"; AddAll in the BFS alphabet, the estimate being a function of the registers in every state",
 "C17":"; Read on every name of <= 4 components over {.., ., empty, directory, file inside, file outside}, relative and rooted, judged by the standard path algebra",
 "C18":"; ten comment-line shapes (indentation, '=' count, empty right-hand side) at every position in the write-back",
 "C20":"; all decoded copies alive together obey the pair tables of the originals",
}
for k,t in extra.items():
    checks[k]["text"]+=t
# additions of the seventh wave
extra7={
 "C03":"; zip payloads around 32 KiB / 64 KiB / 200 000 bytes, compressible and incompressible",
 "C05":"; histories of changes and re-writes on one event pack object",
 "C06":"; scenarios in which the default licence changes between sends",
 "C08":"; SetProfile histories (fresh / assigned / read pack, one or two lists)",
 "C09":"; the second string key is a forged twin of the first (equal full hash)",
 "C10":"; self-deadlock pass also with the receiver as its own argument; thorough tier = quick task list complete, then the larger bounds under a per-worker time budget",
 "C11":"; bounded sequential configurations again under a server-time correction (SetDelta +-10 s)",
 "C12":"; the second string key is a forged twin of the first (equal full hash)",
 "C13":"; child values that differ beyond float32 precision",
 "C14":"; rebuilt counters (estimate, merge receiver) at every step of the estimate families",
 "C15":"; 'pure' decided in the race mode of the explorer: every pair of functions of one package called from two threads in a -race build (57 pairs)",
 "C17":"; histories (<= 5) of logging two ids, letting time pass and changing the suppression interval",
 "C18":"; getter values at the borders of every numeric domain",
 "C19":"; independence of the server-time correction (four corrections, instants around every day border)",
 "C20":"; default-valued (empty text, zero) container elements",
}
for k,t in extra7.items():
    checks[k]["text"]+=t
checks["C15"]["engine"]="E3+E1"
# additions of the eighth wave
extra8={
 "C02":"; top-level containers cleared and refilled with the same entries",
 "C06":"; scenarios with two client objects (two collectors) alive at once",
 "C10":"; after every operation of the self-deadlock pass - returned or panicked (uncomparable stored values) - the lock is free",
 "C16":"; an unserialisable record in the Append alphabet",
 "C17":"; level-dropped formatted calls in the interval histories",
 "C18":"; a second edit landing inside a reload (before / after the read) through a parser seam",
}
for k,t in extra8.items():
    checks[k]["text"]+=t
fix_commits=subprocess.run("git -C /repo log --format=%h --grep '^fix:'",shell=True,capture_output=True,text=True).stdout.split()
hook_commits=subprocess.run("git -C /repo log --format=%h --grep '^verif hooks'",shell=True,capture_output=True,text=True).stdout.split()
m={
 "version":1,
 "setup_cmd":"bin/setup",
 "hooks":{"guard":"verif","enable":"go build -tags verif -overlay /verif/.build/overlay.json ./cmd/verifcheck (bin/check regenerates the overlay from /repo's working tree on every run)",
   "baseline_off_cmd":"cd /repo && GOFLAGS=-mod=mod GOPROXY=off go test -json -vet=off -count=1 -timeout 25m ./...",
   "source_commits":hook_commits,"add_only":True},
 "engines":[
  {"name":"E1 scheduler+DFS","path":"harness/shim/sched harness/shim/vsync harness/shim/vtime harness/engine/dfs","serves_properties":[k for k,v in checks.items() if "E1" in v["engine"]],"kind_free_text":"cooperative scheduler over hooked sync/time/net operations; stateless DFS over schedules and environment answers with preemption/fault bounds"},
  {"name":"E2 explicit-state BFS","path":"harness/engine/seqx","serves_properties":[k for k,v in checks.items() if "E2" in v["engine"]],"kind_free_text":"BFS over operation histories of real objects, replay from scratch per transition, canonical heap hashing, lock-step reference model"},
  {"name":"E3 bounded exhaustive enumeration","path":"harness/engine/enum harness/refenc","serves_properties":[k for k,v in checks.items() if "E3" in v["engine"]],"kind_free_text":"full ranges, boundary alphabets and k-deviation assignments, checked against independent reference encoders"},
  {"name":"E4 fault enumeration","path":"harness/props/c04 harness/shim/vos","serves_properties":[k for k,v in checks.items() if "E4" in v["engine"]],"kind_free_text":"every truncation point, hostile overwrite windows, crash images of an operation log"},
 ],
 "checks":[
  {"property_id":k,"quick_cmd":"bin/check %s quick"%k,"thorough_cmd":"bin/check %s thorough"%k,"evidence_file":"evidence/%s.json"%k,
   "replay_cmd_template":"bin/check %s quick --replay {path}"%k,
   "engine":v["engine"],"level_claimed":{"category":v["cat"],"text":v["text"],"design_ref":v["ref"]},"level_note":v["note"],"technique":v["tech"]}
  for k,v in sorted(checks.items())],
 "not_applicable":[{"property_id":p['id'],"reason":"check not built yet (work in progress; DESIGN.md section 4 has the planned design); not a claim that model checking cannot apply"} for p in props if p['id'] not in checks],
 "notes":"fix commits in /repo: "+" ".join(fix_commits)
}
json.dump(m,open('/verif/MANIFEST.json','w'),indent=1)
print("checks:",sorted(checks))
