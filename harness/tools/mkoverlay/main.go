// mkoverlay rewrites selected files of the golib working tree (import paths of sync/time/net/os/log
// to the verifshim packages, `go` statements to vrt.Go) and emits a `go build -overlay` JSON that
// (a) replaces those files and (b) adds the shim packages as virtual packages of the golib module.
// /repo itself is never written.
//
// usage: mkoverlay -repo /repo -shim /verif/harness/shim -out /verif/.build
package main

import (
	"bytes"
	"encoding/json"
	"flag"
	"fmt"
	"go/ast"
	"go/parser"
	"go/printer"
	"go/token"
	"os"
	"path/filepath"
	"sort"
	"strconv"
	"strings"
)

const shimBase = "github.com/whatap/golib/verifshim/"

type rule struct {
	glob    string            // relative to repo root
	imports map[string]string // stdlib path -> shim package name
	goStmts bool
}

var rules = []rule{
	{"util/hmap/*.go", map[string]string{"sync": "vsync"}, true},
	{"util/list/*.go", map[string]string{"sync": "vsync"}, true},
	{"util/queue/*.go", map[string]string{"sync": "vsync", "time": "vtime"}, true},
	{"util/dateutil/DateUtil.go", map[string]string{"time": "vtime"}, false},
	{"util/dateutil/DateFormat.go", map[string]string{"time": "vtime"}, false},
	{"net/oneway/OneWayTcpClient.go", map[string]string{"sync": "vsync", "time": "vtime", "net": "vnet"}, true},
	{"logsink/zip/ZipSendProxyThread.go", map[string]string{"sync": "vsync", "time": "vtime"}, true},
	{"logger/logfile/FileLogger.go", map[string]string{"sync": "vsync", "time": "vtime", "os": "vos", "log": "vlog", "io/ioutil": "vioutil"}, true},
	{"config/conffile/FileConfig.go", map[string]string{"sync": "vsync", "time": "vtime", "os": "vos"}, true},
	{"config/conffile/DefaultFileParser.go", map[string]string{"os": "vos", "io/ioutil": "vioutil"}, true},
}

func main() {
	repo := flag.String("repo", "/repo", "golib working tree")
	shim := flag.String("shim", "", "directory holding the shim packages")
	out := flag.String("out", "", "output directory (.build)")
	flag.Parse()
	if *shim == "" || *out == "" {
		fmt.Fprintln(os.Stderr, "mkoverlay: -shim and -out are required")
		os.Exit(2)
	}
	replace := map[string]string{}
	ovdir := filepath.Join(*out, "ov")
	os.RemoveAll(ovdir)
	// which shim packages exist
	shimPkgs := map[string]bool{}
	ents, err := os.ReadDir(*shim)
	if err != nil {
		fatal(err)
	}
	for _, e := range ents {
		if !e.IsDir() {
			continue
		}
		files, _ := filepath.Glob(filepath.Join(*shim, e.Name(), "*.go"))
		for _, f := range files {
			if strings.HasSuffix(f, "_test.go") {
				continue
			}
			shimPkgs[e.Name()] = true
			replace[filepath.Join(*repo, "verifshim", e.Name(), filepath.Base(f))] = f
		}
	}
	nfiles := 0
	for _, r := range rules {
		matches, _ := filepath.Glob(filepath.Join(*repo, r.glob))
		sort.Strings(matches)
		for _, src := range matches {
			if strings.HasSuffix(src, "_test.go") {
				continue
			}
			rel, _ := filepath.Rel(*repo, src)
			if strings.HasPrefix(filepath.Base(src), "verif_") {
				continue
			}
			dst := filepath.Join(ovdir, rel)
			changed, err := rewrite(src, dst, rel, r, shimPkgs)
			if err != nil {
				fatal(fmt.Errorf("%s: %v", src, err))
			}
			if changed {
				replace[src] = dst
				nfiles++
			}
		}
	}
	js, _ := json.MarshalIndent(map[string]interface{}{"Replace": replace}, "", " ")
	if err := os.MkdirAll(*out, 0o755); err != nil {
		fatal(err)
	}
	if err := os.WriteFile(filepath.Join(*out, "overlay.json"), js, 0o644); err != nil {
		fatal(err)
	}
	fmt.Printf("mkoverlay: %d files rewritten, %d overlay entries\n", nfiles, len(replace))
}

func fatal(err error) {
	fmt.Fprintln(os.Stderr, "mkoverlay:", err)
	os.Exit(2)
}

func rewrite(src, dst, rel string, r rule, shimPkgs map[string]bool) (bool, error) {
	fset := token.NewFileSet()
	f, err := parser.ParseFile(fset, src, nil, parser.ParseComments)
	if err != nil {
		return false, err
	}
	changed := false
	for _, imp := range f.Imports {
		p, _ := strconv.Unquote(imp.Path.Value)
		if sh, ok := r.imports[p]; ok {
			if !shimPkgs[sh] {
				if os.Getenv("MKOVERLAY_ALLOW_MISSING") != "" {
					return false, nil
				}
				return false, fmt.Errorf("shim package %s missing", sh)
			}
			local := filepath.Base(p)
			if imp.Name != nil {
				local = imp.Name.Name
			}
			imp.Name = ast.NewIdent(local)
			imp.Path.Value = strconv.Quote(shimBase + sh)
			changed = true
		}
	}
	usedGo := false
	if r.goStmts {
		ast.Inspect(f, func(n ast.Node) bool {
			switch b := n.(type) {
			case *ast.BlockStmt:
				rewriteList(fset, rel, b.List, &usedGo)
			case *ast.CaseClause:
				rewriteList(fset, rel, b.Body, &usedGo)
			case *ast.CommClause:
				rewriteList(fset, rel, b.Body, &usedGo)
			}
			return true
		})
	}
	if usedGo {
		changed = true
		spec := &ast.ImportSpec{Name: ast.NewIdent("verifvrt"), Path: &ast.BasicLit{Kind: token.STRING, Value: strconv.Quote(shimBase + "vrt")}}
		added := false
		for _, d := range f.Decls {
			if gd, ok := d.(*ast.GenDecl); ok && gd.Tok == token.IMPORT {
				if !gd.Lparen.IsValid() {
					// single-line import: turn into a group
					gd.Lparen = gd.Pos()
					gd.Rparen = gd.End()
				}
				gd.Specs = append(gd.Specs, spec)
				added = true
				break
			}
		}
		if !added {
			gd := &ast.GenDecl{Tok: token.IMPORT, Specs: []ast.Spec{spec}}
			f.Decls = append([]ast.Decl{gd}, f.Decls...)
		}
	}
	if !changed {
		return false, nil
	}
	var buf bytes.Buffer
	if err := (&printer.Config{Mode: printer.UseSpaces | printer.TabIndent, Tabwidth: 8}).Fprint(&buf, fset, f); err != nil {
		return false, err
	}
	if err := os.MkdirAll(filepath.Dir(dst), 0o755); err != nil {
		return false, err
	}
	return true, os.WriteFile(dst, buf.Bytes(), 0o644)
}

func rewriteList(fset *token.FileSet, rel string, list []ast.Stmt, used *bool) {
	for i, st := range list {
		g, ok := st.(*ast.GoStmt)
		if !ok {
			continue
		}
		pos := fset.Position(g.Pos())
		site := fmt.Sprintf("%s:%d", filepath.Base(rel), pos.Line)
		fn := &ast.FuncLit{
			Type: &ast.FuncType{Params: &ast.FieldList{}},
			Body: &ast.BlockStmt{List: []ast.Stmt{&ast.ExprStmt{X: g.Call}}},
		}
		call := &ast.CallExpr{
			Fun:  &ast.SelectorExpr{X: ast.NewIdent("verifvrt"), Sel: ast.NewIdent("Go")},
			Args: []ast.Expr{&ast.BasicLit{Kind: token.STRING, Value: strconv.Quote(site)}, fn},
		}
		list[i] = &ast.ExprStmt{X: call}
		*used = true
	}
}
