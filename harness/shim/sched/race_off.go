//go:build !race

package sched

import "unsafe"

const RaceOn = false

func raceDisable() {}
func raceEnable()  {}

func RaceAcquire(p unsafe.Pointer)      {}
func RaceRelease(p unsafe.Pointer)      {}
func RaceReleaseMerge(p unsafe.Pointer) {}
