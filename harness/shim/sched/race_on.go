//go:build race

package sched

import (
	"runtime"
	"unsafe"
)

// RaceOn: this binary is built with -race. The baton hand-offs of the cooperative scheduler are then
// hidden from the race detector (runtime.RaceDisable makes the goroutine's synchronisation events
// invisible), and the modelled primitives (vsync.Mutex, Cond, thread start and join) announce
// exactly the happens-before edges the real primitives would create. The detector therefore judges
// every explored schedule by the happens-before relation of the code under test alone.
const RaceOn = true

func raceDisable() { runtime.RaceDisable() }
func raceEnable()  { runtime.RaceEnable() }

func RaceAcquire(p unsafe.Pointer)      { runtime.RaceAcquire(p) }
func RaceRelease(p unsafe.Pointer)      { runtime.RaceRelease(p) }
func RaceReleaseMerge(p unsafe.Pointer) { runtime.RaceReleaseMerge(p) }
