// Package sched is the cooperative scheduler behind the vsync/vtime/vrt/vnet shims.
//
// Exactly one logical thread runs at a time; every shim operation hands the baton back to the
// scheduler loop *before* acting (Yield). The loop decides who runs next from a replayed choice
// prefix and then always takes choice 0, recording every point at which more than one choice
// existed, so that a DFS driver (engine/dfs) can enumerate all executions within a deviation bound.
//
// This package is compiled into the golib module as the virtual package
// github.com/whatap/golib/verifshim/sched through `go build -overlay`.
package sched

import (
	"fmt"
	"runtime"
	"sort"
	"unsafe"
)

// Mode of the process-wide scheduler.
const (
	ModeOff      = 0 // shims delegate to the real packages
	ModeActive   = 1 // an execution is running under the scheduler
	ModeAborting = 2 // execution is being torn down: shim operations are no-ops
)

var mode int
var active *Exec
var epoch int

// Epoch identifies the current execution; state left behind in process-wide objects (package-level
// mutexes) by an abandoned execution is recognised by its stale epoch.
//
//go:norace
func Epoch() int { return epoch }

// Cur returns the running execution, or nil when the shims must behave like the real thing.
//
//go:norace
func Cur() *Exec {
	if mode == ModeActive {
		return active
	}
	return nil
}

// Mode reports the scheduler mode (used by shims to make deferred unlocks harmless during abort).
//
//go:norace
func CurMode() int { return mode }

// Op describes what a thread is about to do.
type Op struct {
	Kind    string
	Obj     interface{}
	Enabled func() bool // nil = always enabled
	WakeAt  int64       // for Kind=="sleep": virtual time (ns) at which the thread becomes enabled
	Sleep   bool
}

type Thread struct {
	ID      int
	Name    string
	wake    chan int
	pending Op
	done    bool
	started bool
	x       *Exec
	// Panic holds the value of an uncaught panic that ended the thread.
	Panic interface{}
	Stack string
}

const (
	PointSched = 0
	PointEnv   = 1
)

// PointRec is one recorded choice point.
type PointRec struct {
	Kind           int    // PointSched / PointEnv
	N              int    // number of alternatives
	Chosen         int    // alternative taken
	RunningEnabled bool   // sched: the previously running thread was still enabled (alt 0 is "continue")
	NEnabled       int    // sched: how many of the N alternatives are enabled threads (the rest are sleepers)
	Label          string // env: what was asked
	Step           int
}

// Cost of having taken alternative alt at this point: (preemptions, faults).
func (p PointRec) Cost(alt int) (int, int) {
	if alt == 0 {
		return 0, 0
	}
	if p.Kind == PointEnv {
		return 0, 1
	}
	if p.RunningEnabled {
		return 1, 0
	}
	// running thread blocked or finished: switching among enabled threads is free, waking a
	// sleeper early while runnable threads exist is a deviation.
	if alt >= p.NEnabled && p.NEnabled > 0 {
		return 1, 0
	}
	return 0, 0
}

// Exec is one execution under the scheduler.
type Exec struct {
	threads []*Thread
	cur     *Thread
	yield   chan struct{}

	prefix []int
	pos    int

	Points  []PointRec
	Choices []int
	Steps   int
	StepCap int
	Now     int64 // virtual nanoseconds since the epoch chosen by vtime

	Deadlock   bool
	HitStepCap bool
	Diverged   string // non-empty: replay prefix did not fit (hard error)
	Blocked    []string

	// Trace of (thread id, op kind) per step, filled when TraceOn.
	TraceOn bool
	Trace   []string

	// Free-form per-execution storage for harnesses and shims.
	Vars map[string]interface{}

	// PreTeardown, when set, runs after the last scheduled step and before the remaining threads
	// are unwound (the race pass reads the detector's log here: what unwinding threads touch is
	// not part of the execution).
	PreTeardown func()
	join        int // address used as the thread-end -> harness happens-before token (race builds)
}

// Begin installs a new execution. Only one may exist at a time in a process.
//
//go:norace
func Begin(prefix []int, stepCap int) *Exec {
	if mode != ModeOff {
		panic("sched: Begin while another execution is active")
	}
	epoch++
	x := &Exec{prefix: prefix, StepCap: stepCap, yield: make(chan struct{}), Vars: map[string]interface{}{}}
	active = x
	mode = ModeActive
	return x
}

// Spawn registers a new logical thread. May be called before Run (by the harness) or by a running
// thread (vrt.Go).
//
//go:norace
func (x *Exec) Spawn(name string, fn func()) *Thread {
	t := &Thread{ID: len(x.threads), Name: name, wake: make(chan int), x: x}
	t.pending = Op{Kind: "start"}
	x.threads = append(x.threads, t)
	go threadMain(x, t, fn)
	return t
}

// threadMain is the body of a thread's goroutine. The bookkeeping of the scheduler is kept out of
// the race detector's sight (go:norace; the directive does not reach closures, hence named
// functions): only the code under test is to be judged.
//
//go:norace
func threadMain(x *Exec, t *Thread, fn func()) {
	defer threadExit(x, t)
	raceDisable()
	v := <-t.wake
	raceEnable()
	if v != 0 {
		return
	}
	t.started = true
	defer threadRecover(t)
	fn()
}

//go:norace
func threadRecover(t *Thread) {
	if r := recover(); r != nil {
		t.Panic = r
		buf := make([]byte, 4096)
		n := runtime.Stack(buf, false)
		t.Stack = string(buf[:n])
	}
}

//go:norace
func threadExit(x *Exec, t *Thread) {
	t.done = true
	// thread end happens-before whatever the harness does after Run
	RaceReleaseMerge(unsafe.Pointer(&x.join))
	raceDisable()
	x.yield <- struct{}{}
}

// CurThread returns the running thread.
//
//go:norace
func (x *Exec) CurThread() *Thread { return x.cur }

// Threads returns all threads.
//
//go:norace
func (x *Exec) Threads() []*Thread { return x.threads }

//go:norace
func (t *Thread) Done() bool { return t.done }

// PendingKind reports what the thread is waiting to do ("sleep", "lock", ...).
//
//go:norace
func (t *Thread) PendingKind() string {
	if t.done {
		return "done"
	}
	return t.pending.Kind
}

// Yield hands the baton back; returns when the scheduler selects this thread again, at which time
// op.Enabled() held.
//
//go:norace
func (x *Exec) Yield(op Op) {
	t := x.cur
	if t == nil {
		// set-up code running on the harness goroutine before Run: act immediately
		return
	}
	t.pending = op
	raceDisable() // the hand-off itself must not order the threads' memory accesses
	x.yield <- struct{}{}
	v := <-t.wake
	raceEnable()
	if v != 0 {
		runtime.Goexit()
	}
}

//go:norace
func (x *Exec) nextChoice(n int) (int, bool) {
	if x.pos < len(x.prefix) {
		c := x.prefix[x.pos]
		x.pos++
		if c < 0 || c >= n {
			x.Diverged = fmt.Sprintf("replay divergence at choice %d: want alt %d of %d", x.pos-1, c, n)
			return 0, false
		}
		return c, true
	}
	x.pos++
	return 0, true
}

// Choose is an environment choice point (fault injection, short write, dial result ...).
// Alternative 0 is the default answer.
//
//go:norace
func (x *Exec) Choose(n int, label string) int {
	if n <= 1 {
		return 0
	}
	c, _ := x.nextChoice(n)
	x.Points = append(x.Points, PointRec{Kind: PointEnv, N: n, Chosen: c, Label: label, Step: x.Steps})
	x.Choices = append(x.Choices, c)
	return c
}

//go:norace
func (t *Thread) enabled() bool {
	if t.done {
		return false
	}
	if t.pending.Sleep {
		return t.x.Now >= t.pending.WakeAt
	}
	if t.pending.Enabled == nil {
		return true
	}
	return t.pending.Enabled()
}

// Run drives the execution until every thread finished, a deadlock, the step cap, or divergence.
// It always tears down the remaining threads and returns with the scheduler off.
//
//go:norace
func (x *Exec) Run() {
	raceDisable()
	defer func() {
		x.teardown()
		raceEnable()
		RaceAcquire(unsafe.Pointer(&x.join))
	}()
	for {
		if x.Diverged != "" {
			return
		}
		var en []*Thread
		var sleepers []*Thread
		alive := 0
		for _, t := range x.threads {
			if t.done {
				continue
			}
			alive++
			if t.enabled() {
				en = append(en, t)
			} else if t.pending.Sleep {
				sleepers = append(sleepers, t)
			}
		}
		if alive == 0 {
			return
		}
		if len(en) == 0 {
			if len(sleepers) == 0 {
				x.Deadlock = true
				for _, t := range x.threads {
					if !t.done {
						x.Blocked = append(x.Blocked, fmt.Sprintf("%s@%s", t.Name, t.pending.Kind))
					}
				}
				return
			}
			// nothing runnable: jump the clock to the earliest sleeper
			min := sleepers[0].pending.WakeAt
			for _, t := range sleepers {
				if t.pending.WakeAt < min {
					min = t.pending.WakeAt
				}
			}
			x.Now = min
			continue
		}
		// canonical order: running thread first if still enabled, then ascending ids; then
		// sleepers ordered by wake-up time (choosing one advances the clock to its wake-up).
		order := make([]*Thread, 0, len(en)+len(sleepers))
		runningEnabled := false
		for _, t := range en {
			if t == x.cur {
				runningEnabled = true
				order = append(order, t)
			}
		}
		for _, t := range en {
			if t != x.cur {
				order = append(order, t)
			}
		}
		nEnabled := len(order)
		if len(sleepers) > 0 {
			sort.SliceStable(sleepers, func(i, j int) bool { return sleepers[i].pending.WakeAt < sleepers[j].pending.WakeAt })
			order = append(order, sleepers...)
		}
		var t *Thread
		if len(order) == 1 {
			t = order[0]
		} else {
			c, ok := x.nextChoice(len(order))
			if !ok {
				return
			}
			x.Points = append(x.Points, PointRec{Kind: PointSched, N: len(order), Chosen: c, RunningEnabled: runningEnabled, NEnabled: nEnabled, Step: x.Steps})
			x.Choices = append(x.Choices, c)
			t = order[c]
			if c >= nEnabled {
				x.Now = t.pending.WakeAt
			}
		}
		x.Steps++
		if x.StepCap > 0 && x.Steps > x.StepCap {
			x.HitStepCap = true
			return
		}
		if x.TraceOn {
			x.Trace = append(x.Trace, fmt.Sprintf("%s:%s", t.Name, t.pending.Kind))
		}
		x.cur = t
		t.wake <- 0
		<-x.yield
	}
}

//go:norace
func (x *Exec) teardown() {
	if x.PreTeardown != nil {
		x.PreTeardown()
	}
	mode = ModeAborting
	for _, t := range x.threads {
		if !t.done {
			t.wake <- 1
			<-x.yield
		}
	}
	mode = ModeOff
	active = nil
	if x.pos < len(x.prefix) && x.Diverged == "" {
		x.Diverged = fmt.Sprintf("replay divergence: execution ended after %d of %d prefix choices", x.pos, len(x.prefix))
	}
}

// Costs returns the cumulative (preemptions, faults) of Choices[:i].
//
//go:norace
func (x *Exec) Costs(i int) (int, int) {
	p, f := 0, 0
	for k := 0; k < i && k < len(x.Points); k++ {
		a, b := x.Points[k].Cost(x.Points[k].Chosen)
		p += a
		f += b
	}
	return p, f
}
