// Package vos stands in for "os" in rewritten golib files. Two back ends:
//   - an in-memory file system (Use(NewMemFS())): deterministic directory order, no disk, file
//     operations are scheduling points of the cooperative scheduler;
//   - pass-through to the real file system with an operation log (UseLog(&Log{})), for code whose
//     third-party parts read the real path (config files).
//
// Without either it is the real package.
package vos

import (
	"errors"
	"io"
	"io/fs"
	"os"
	"path/filepath"
	"sort"
	"strings"
	"time"

	"github.com/whatap/golib/verifshim/sched"
	"github.com/whatap/golib/verifshim/vtime"
)

type FileInfo = fs.FileInfo
type FileMode = fs.FileMode

const (
	O_RDONLY = os.O_RDONLY
	O_WRONLY = os.O_WRONLY
	O_RDWR   = os.O_RDWR
	O_APPEND = os.O_APPEND
	O_CREATE = os.O_CREATE
	O_EXCL   = os.O_EXCL
	O_SYNC   = os.O_SYNC
	O_TRUNC  = os.O_TRUNC

	ModePerm = os.ModePerm
)

var (
	ErrNotExist = os.ErrNotExist
	ErrClosed   = os.ErrClosed
	Getenv      = os.Getenv
	Setenv      = os.Setenv
	Unsetenv    = os.Unsetenv
	Exit        = os.Exit
	Getpid      = os.Getpid
	Hostname    = os.Hostname
	Args        = os.Args
)

func IsNotExist(err error) bool { return os.IsNotExist(err) || errors.Is(err, fs.ErrNotExist) }
func IsExist(err error) bool    { return os.IsExist(err) }

// ---- memory FS -----------------------------------------------------------------------------------------

type node struct {
	data  []byte
	dir   bool
	mtime time.Time
}

type MemFS struct {
	nodes map[string]*node
	// Removed lists the paths Remove was called on successfully, in order.
	Removed []string
}

func NewMemFS() *MemFS { return &MemFS{nodes: map[string]*node{}} }

var mem *MemFS

// Use installs the in-memory file system (nil removes it).
func Use(m *MemFS) { mem = m }

func clean(p string) string { return filepath.Clean(p) }

func (m *MemFS) MkdirAll(p string) {
	p = clean(p)
	for p != "." && p != "/" && p != "" {
		if _, ok := m.nodes[p]; !ok {
			m.nodes[p] = &node{dir: true}
		}
		p = filepath.Dir(p)
	}
}

// WriteFile creates or replaces a file (harness side).
func (m *MemFS) WriteFile(p string, data []byte) {
	m.MkdirAll(filepath.Dir(p))
	m.nodes[clean(p)] = &node{data: append([]byte{}, data...), mtime: vtime.Now()}
}

// ReadFile returns the content (harness side).
func (m *MemFS) ReadFile(p string) ([]byte, bool) {
	n, ok := m.nodes[clean(p)]
	if !ok || n.dir {
		return nil, false
	}
	return n.data, true
}

// List returns the sorted names in a directory.
func (m *MemFS) List(dir string) []string {
	dir = clean(dir)
	var out []string
	for p := range m.nodes {
		if filepath.Dir(p) == dir && p != dir {
			out = append(out, filepath.Base(p))
		}
	}
	sort.Strings(out)
	return out
}

type memInfo struct {
	name string
	n    *node
}

func (i memInfo) Name() string { return i.name }
func (i memInfo) Size() int64  { return int64(len(i.n.data)) }
func (i memInfo) Mode() fs.FileMode {
	if i.n.dir {
		return fs.ModeDir | 0o755
	}
	return 0o644
}
func (i memInfo) ModTime() time.Time { return i.n.mtime }
func (i memInfo) IsDir() bool        { return i.n.dir }
func (i memInfo) Sys() interface{}   { return nil }

// ---- operation log (pass-through mode) --------------------------------------------------------------------

type Op struct {
	Kind string // open-trunc | open | write | sync | close
	Path string
	Data []byte
}

type Log struct{ Ops []Op }

var oplog *Log

// UseLog installs an operation log for the pass-through back end (nil removes it).
func UseLog(l *Log) { oplog = l }

func logOp(kind, path string, data []byte) {
	if oplog != nil {
		oplog.Ops = append(oplog.Ops, Op{kind, path, append([]byte{}, data...)})
	}
}

func point(kind string) {
	if x := sched.Cur(); x != nil {
		x.Yield(sched.Op{Kind: kind})
	}
}

// ---- File ------------------------------------------------------------------------------------------------------

type File struct {
	name   string
	real   *os.File
	n      *node
	closed bool
	std    bool
	pos    int64
	flag   int
}

var Stdout = &File{name: "/dev/stdout", std: true}
var Stderr = &File{name: "/dev/stderr", std: true}

func OpenFile(name string, flag int, perm FileMode) (*File, error) {
	if mem != nil {
		point("file-open")
		p := clean(name)
		n, ok := mem.nodes[p]
		if !ok {
			if flag&O_CREATE == 0 {
				return nil, &fs.PathError{Op: "open", Path: name, Err: fs.ErrNotExist}
			}
			if d, ok := mem.nodes[filepath.Dir(p)]; !ok || !d.dir {
				return nil, &fs.PathError{Op: "open", Path: name, Err: fs.ErrNotExist}
			}
			n = &node{mtime: vtime.Now()}
			mem.nodes[p] = n
		}
		if n.dir {
			return nil, &fs.PathError{Op: "open", Path: name, Err: errors.New("is a directory")}
		}
		if flag&O_TRUNC != 0 {
			n.data = nil
		}
		return &File{name: name, n: n, flag: flag}, nil
	}
	if flag&O_TRUNC != 0 {
		point("file-open-trunc")
		logOp("open-trunc", name, nil)
	} else if oplog != nil {
		point("file-open")
		logOp("open", name, nil)
	}
	f, err := os.OpenFile(name, flag, perm)
	if err != nil {
		return nil, err
	}
	return &File{name: name, real: f, flag: flag}, nil
}

func Open(name string) (*File, error) { return OpenFile(name, O_RDONLY, 0) }
func Create(name string) (*File, error) {
	return OpenFile(name, O_RDWR|O_CREATE|O_TRUNC, 0o666)
}

func (f *File) Name() string { return f.name }

func (f *File) Write(b []byte) (int, error) {
	if f.std {
		return len(b), nil
	}
	if f.n != nil {
		point("file-write")
		if f.closed {
			return 0, &fs.PathError{Op: "write", Path: f.name, Err: fs.ErrClosed}
		}
		// POSIX: with O_APPEND every write goes to the end of the file; without it the write goes to
		// the descriptor's own offset (0 after open), over whatever is there
		if f.flag&O_APPEND != 0 {
			f.pos = int64(len(f.n.data))
		}
		if end := f.pos + int64(len(b)); end > int64(len(f.n.data)) {
			f.n.data = append(f.n.data, make([]byte, end-int64(len(f.n.data)))...)
		}
		copy(f.n.data[f.pos:], b)
		f.pos += int64(len(b))
		f.n.mtime = vtime.Now()
		return len(b), nil
	}
	point("file-write")
	logOp("write", f.name, b)
	return f.real.Write(b)
}

func (f *File) WriteString(s string) (int, error) { return f.Write([]byte(s)) }

func (f *File) Read(b []byte) (int, error) {
	if f.n != nil {
		if f.closed {
			return 0, fs.ErrClosed
		}
		if f.pos >= int64(len(f.n.data)) {
			return 0, io.EOF
		}
		n := copy(b, f.n.data[f.pos:])
		f.pos += int64(n)
		return n, nil
	}
	if f.real == nil {
		return 0, io.EOF
	}
	return f.real.Read(b)
}

func (f *File) ReadAt(b []byte, off int64) (int, error) {
	if f.n != nil {
		if off < 0 {
			return 0, errors.New("negative offset")
		}
		if off >= int64(len(f.n.data)) {
			if len(b) == 0 {
				return 0, nil
			}
			return 0, io.EOF
		}
		n := copy(b, f.n.data[off:])
		if n < len(b) {
			return n, io.EOF
		}
		return n, nil
	}
	return f.real.ReadAt(b, off)
}

func (f *File) Stat() (FileInfo, error) {
	if f.n != nil {
		return memInfo{filepath.Base(f.name), f.n}, nil
	}
	if f.real == nil {
		return nil, fs.ErrInvalid
	}
	return f.real.Stat()
}

func (f *File) Sync() error {
	if f.n != nil || f.std {
		return nil
	}
	point("file-sync")
	logOp("sync", f.name, nil)
	return f.real.Sync()
}

func (f *File) Close() error {
	if f == nil {
		return fs.ErrInvalid
	}
	if f.std {
		return nil
	}
	if f.n != nil {
		point("file-close")
		if f.closed {
			return fs.ErrClosed
		}
		f.closed = true
		return nil
	}
	if oplog != nil {
		point("file-close")
		logOp("close", f.name, nil)
	}
	if f.real == nil {
		return fs.ErrInvalid
	}
	return f.real.Close()
}

func Stat(name string) (FileInfo, error) {
	if mem != nil {
		n, ok := mem.nodes[clean(name)]
		if !ok {
			return nil, &fs.PathError{Op: "stat", Path: name, Err: fs.ErrNotExist}
		}
		return memInfo{filepath.Base(name), n}, nil
	}
	return os.Stat(name)
}

func Mkdir(name string, perm FileMode) error {
	if mem != nil {
		p := clean(name)
		if _, ok := mem.nodes[p]; ok {
			return &fs.PathError{Op: "mkdir", Path: name, Err: fs.ErrExist}
		}
		mem.MkdirAll(p)
		return nil
	}
	return os.Mkdir(name, perm)
}

func MkdirAll(name string, perm FileMode) error {
	if mem != nil {
		mem.MkdirAll(name)
		return nil
	}
	return os.MkdirAll(name, perm)
}

func Remove(name string) error {
	if mem != nil {
		point("file-remove")
		p := clean(name)
		if _, ok := mem.nodes[p]; !ok {
			return &fs.PathError{Op: "remove", Path: name, Err: fs.ErrNotExist}
		}
		delete(mem.nodes, p)
		mem.Removed = append(mem.Removed, p)
		return nil
	}
	return os.Remove(name)
}

// ReadDir (used by vioutil) lists a directory sorted by name.
func ReadDirInfos(dir string) ([]FileInfo, error) {
	if mem != nil {
		d := clean(dir)
		if n, ok := mem.nodes[d]; !ok || !n.dir {
			return nil, &fs.PathError{Op: "open", Path: dir, Err: fs.ErrNotExist}
		}
		var out []FileInfo
		for _, name := range mem.List(d) {
			out = append(out, memInfo{name, mem.nodes[filepath.Join(d, name)]})
		}
		return out, nil
	}
	ents, err := os.ReadDir(dir)
	if err != nil {
		return nil, err
	}
	var out []FileInfo
	for _, e := range ents {
		if i, err := e.Info(); err == nil {
			out = append(out, i)
		}
	}
	return out, nil
}

var _ = strings.TrimSpace
