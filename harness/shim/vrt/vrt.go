// Package vrt replaces `go f(x)` statements of rewritten golib files.
package vrt

import (
	"fmt"

	"github.com/whatap/golib/verifshim/sched"
)

const (
	PolicyReal       = 0 // start a real goroutine (outside scheduler runs)
	PolicySuppressed = 1 // do not start it at all (sequential checks drive the cycle themselves)
)

// Policy applies outside scheduler runs only; inside a run the goroutine becomes a scheduled thread.
var Policy = PolicyReal

// Spawned counts suppressed/started goroutines, for evidence.
var Spawned int

// Filter, when set, decides inside a scheduler run whether a spawned function becomes a thread.
var Filter func(site string) bool

func Go(site string, f func()) {
	Spawned++
	if x := sched.Cur(); x != nil {
		if Filter != nil && !Filter(site) {
			return
		}
		x.Spawn(fmt.Sprintf("go:%s", site), f)
		return
	}
	if sched.CurMode() == sched.ModeAborting {
		return
	}
	if Policy == PolicySuppressed {
		return
	}
	go f()
}
