// Package vnet stands in for "net" in rewritten golib files: an in-memory network whose dial and
// write answers are environment choice points of the scheduler (engine E1). Outside a scheduler run
// and without an installed Fake it delegates to the real package.
package vnet

import (
	"errors"
	"fmt"
	"net"
	"time"

	"github.com/whatap/golib/verifshim/sched"
)

type Conn = net.Conn
type Addr = net.Addr
type Error = net.Error
type IP = net.IP
type Listener = net.Listener

var (
	Listen       = net.Listen
	ParseIP      = net.ParseIP
	JoinHostPort = net.JoinHostPort
)

// Fake is the in-memory collector side. Install one with Use before creating clients.
type Fake struct {
	Conns []*TCPConn
	// WriteCuts lists, for a Write of n bytes, the prefixes after which the peer may reset the
	// connection (alternatives of the environment choice); nil = every byte offset 0..n-1.
	WriteCuts func(n int) []int
	// DialFailable: whether a dial may fail (environment choice).
	DialFailable     bool
	DeadlineFailable bool
	Dials            int
	DialErrors       int
}

var cur *Fake

func Use(f *Fake) { cur = f }

// TCPConn is the fake connection; the harness reads Received afterwards.
type TCPConn struct {
	ID       int
	Addr     string
	Received []byte
	Writes   []int // accepted byte counts per Write call
	Dead     bool
	Closed   bool
	ErrAt    int // offset in Received at which the connection was reset (-1 = never)
}

type fakeAddr string

func (a fakeAddr) Network() string { return "tcp" }
func (a fakeAddr) String() string  { return string(a) }

var ErrReset = errors.New("vnet: connection reset by peer")
var ErrRefused = errors.New("vnet: connection refused")

func choose(n int, label string) int {
	if x := sched.Cur(); x != nil {
		return x.Choose(n, label)
	}
	return 0
}

func DialTimeout(network, address string, timeout time.Duration) (Conn, error) {
	if cur == nil {
		return net.DialTimeout(network, address, timeout)
	}
	f := cur
	f.Dials++
	if x := sched.Cur(); x != nil {
		x.Yield(sched.Op{Kind: "dial"})
	}
	if f.DialFailable && choose(2, "dial") == 1 {
		f.DialErrors++
		return nil, ErrRefused
	}
	c := &TCPConn{ID: len(f.Conns), Addr: address, ErrAt: -1}
	f.Conns = append(f.Conns, c)
	return c, nil
}

func (c *TCPConn) Write(b []byte) (int, error) {
	if x := sched.Cur(); x != nil {
		x.Yield(sched.Op{Kind: "net-write"})
	}
	if c.Closed {
		return 0, errors.New("vnet: use of closed network connection")
	}
	if c.Dead {
		return 0, ErrReset
	}
	f := cur
	var cuts []int
	if f != nil && f.WriteCuts != nil {
		cuts = f.WriteCuts(len(b))
	} else {
		for i := 0; i < len(b); i++ {
			cuts = append(cuts, i)
		}
	}
	k := choose(len(cuts)+1, fmt.Sprintf("write(%d)", len(b)))
	if k == 0 {
		c.Received = append(c.Received, b...)
		c.Writes = append(c.Writes, len(b))
		return len(b), nil
	}
	n := cuts[k-1]
	c.Received = append(c.Received, b[:n]...)
	c.Writes = append(c.Writes, n)
	c.Dead = true
	c.ErrAt = len(c.Received)
	return n, ErrReset
}

func (c *TCPConn) Read(b []byte) (int, error) { return 0, errors.New("vnet: read not modelled") }
func (c *TCPConn) Close() error {
	c.Closed = true
	return nil
}
func (c *TCPConn) LocalAddr() Addr                   { return fakeAddr("local") }
func (c *TCPConn) RemoteAddr() Addr                  { return fakeAddr(c.Addr) }
func (c *TCPConn) SetDeadline(t time.Time) error     { return nil }
func (c *TCPConn) SetReadDeadline(t time.Time) error { return nil }
func (c *TCPConn) SetWriteDeadline(t time.Time) error {
	if cur != nil && cur.DeadlineFailable && !c.Dead && choose(2, "set-write-deadline") == 1 {
		c.Dead = true
		c.ErrAt = len(c.Received)
		return ErrReset
	}
	return nil
}
