// Package vtime stands in for "time" in rewritten golib files. Inside a scheduler run Now/Sleep are
// on the execution's virtual clock; outside a run they use a process-wide virtual clock when one
// has been set with SetVirtual, and the real clock otherwise.
package vtime

import (
	"time"

	"github.com/whatap/golib/verifshim/sched"
)

type Time = time.Time
type Duration = time.Duration
type Month = time.Month
type Weekday = time.Weekday
type Location = time.Location
type Timer = time.Timer
type Ticker = time.Ticker

const (
	Nanosecond  = time.Nanosecond
	Microsecond = time.Microsecond
	Millisecond = time.Millisecond
	Second      = time.Second
	Minute      = time.Minute
	Hour        = time.Hour
)

const (
	January   = time.January
	February  = time.February
	March     = time.March
	April     = time.April
	May       = time.May
	June      = time.June
	July      = time.July
	August    = time.August
	September = time.September
	October   = time.October
	November  = time.November
	December  = time.December
)

const (
	RFC3339     = time.RFC3339
	RFC3339Nano = time.RFC3339Nano
	RFC1123     = time.RFC1123
	Kitchen     = time.Kitchen
)

var (
	UTC   = time.UTC
	Local = time.Local
)

var (
	Date            = time.Date
	Unix            = time.Unix
	UnixMilli       = time.UnixMilli
	UnixMicro       = time.UnixMicro
	Parse           = time.Parse
	ParseInLocation = time.ParseInLocation
	ParseDuration   = time.ParseDuration
	LoadLocation    = time.LoadLocation
	FixedZone       = time.FixedZone
	NewTicker       = time.NewTicker
	NewTimer        = time.NewTimer
	After           = time.After
	AfterFunc       = time.AfterFunc
	Tick            = time.Tick
)

// Epoch is the instant virtual time 0 of a scheduler run corresponds to.
var Epoch = DefaultEpoch

// DefaultEpoch is what Epoch is unless a scenario moves it.
var DefaultEpoch = time.Date(2024, time.March, 10, 12, 0, 0, 0, time.UTC)

// MinSleep is the least amount of virtual time any Sleep takes inside a scheduler run.
var MinSleep = time.Millisecond

var virtualOn bool
var virtualNow time.Time

// SetVirtual installs a process-wide virtual clock used outside scheduler runs.
func SetVirtual(t time.Time) { virtualOn = true; virtualNow = t }

// ClearVirtual removes it.
func ClearVirtual() { virtualOn = false }

// Advance moves the process-wide virtual clock.
func Advance(d time.Duration) { virtualNow = virtualNow.Add(d) }

func Now() time.Time {
	if x := sched.Cur(); x != nil {
		return Epoch.Add(time.Duration(x.Now))
	}
	if sched.CurMode() == sched.ModeAborting && virtualOn {
		return virtualNow
	}
	if virtualOn {
		return virtualNow
	}
	return time.Now()
}

func Since(t time.Time) time.Duration { return Now().Sub(t) }
func Until(t time.Time) time.Duration { return t.Sub(Now()) }

func Sleep(d time.Duration) {
	switch sched.CurMode() {
	case sched.ModeActive:
		x := sched.Cur()
		// A sleeping thread observes time passing: polling loops over a millisecond clock
		// (GetTimeout sleeps t/3 ms, which is 0 for t < 3) would otherwise never end in virtual time.
		if d < MinSleep {
			d = MinSleep
		}
		x.Yield(sched.Op{Kind: "sleep", Sleep: true, WakeAt: x.Now + int64(d)})
	case sched.ModeAborting:
	default:
		if virtualOn {
			if d < MinSleep {
				d = MinSleep
			}
			virtualNow = virtualNow.Add(d)
			return
		}
		time.Sleep(d)
	}
}
