// Package vsync stands in for "sync" in rewritten golib files (see tools/mkoverlay).
// Outside a scheduler run every type delegates to the real sync primitive; inside a run Lock,
// Unlock, Wait, Signal and Broadcast are scheduling points with modelled blocking semantics.
package vsync

import (
	"sync"

	"github.com/whatap/golib/verifshim/sched"
)

type Locker = sync.Locker
type RWMutex = sync.RWMutex
type WaitGroup = sync.WaitGroup
type Once = sync.Once
type Pool = sync.Pool
type Map = sync.Map

// Mutex is a drop-in for sync.Mutex (zero value ready to use).
type Mutex struct {
	real  sync.Mutex
	held  bool
	epoch int // execution in which held was set; a stale epoch means "left locked by an abandoned run"
}

func (m *Mutex) isHeld() bool { return m.held && m.epoch == sched.Epoch() }

func (m *Mutex) Lock() {
	switch sched.CurMode() {
	case sched.ModeActive:
		x := sched.Cur()
		x.Yield(sched.Op{Kind: "lock", Obj: m, Enabled: func() bool { return !m.isHeld() }})
		m.held = true
		m.epoch = sched.Epoch()
	case sched.ModeAborting:
	default:
		m.real.Lock()
	}
}

func (m *Mutex) TryLock() bool {
	switch sched.CurMode() {
	case sched.ModeActive:
		x := sched.Cur()
		x.Yield(sched.Op{Kind: "trylock", Obj: m})
		if m.isHeld() {
			return false
		}
		m.held = true
		m.epoch = sched.Epoch()
		return true
	case sched.ModeAborting:
		return true
	default:
		return m.real.TryLock()
	}
}

func (m *Mutex) Unlock() {
	switch sched.CurMode() {
	case sched.ModeActive:
		if !m.isHeld() {
			panic("vsync: unlock of unlocked mutex")
		}
		m.held = false
		sched.Cur().Yield(sched.Op{Kind: "unlock", Obj: m})
	case sched.ModeAborting:
	default:
		m.real.Unlock()
	}
}

// Held reports the modelled state (for harness invariants).
func (m *Mutex) Held() bool { return m.isHeld() }

type waiter struct{ signaled bool }

// Cond is a drop-in for sync.Cond.
type Cond struct {
	L       Locker
	real    *sync.Cond
	waiters []*waiter
}

func NewCond(l Locker) *Cond {
	return &Cond{L: l, real: sync.NewCond(l)}
}

func (c *Cond) Wait() {
	switch sched.CurMode() {
	case sched.ModeActive:
		x := sched.Cur()
		w := &waiter{}
		c.waiters = append(c.waiters, w)
		// release atomically with enqueueing, as sync.Cond does
		if m, ok := c.L.(*Mutex); ok {
			if !m.isHeld() {
				panic("vsync: Cond.Wait without holding L")
			}
			m.held = false
		} else {
			c.L.Unlock()
		}
		x.Yield(sched.Op{Kind: "condwait", Obj: c, Enabled: func() bool { return w.signaled }})
		c.L.Lock()
	case sched.ModeAborting:
	default:
		c.real.Wait()
	}
}

func (c *Cond) Signal() {
	switch sched.CurMode() {
	case sched.ModeActive:
		if len(c.waiters) > 0 {
			c.waiters[0].signaled = true
			c.waiters = c.waiters[1:]
		}
		sched.Cur().Yield(sched.Op{Kind: "signal", Obj: c})
	case sched.ModeAborting:
	default:
		c.real.Signal()
	}
}

func (c *Cond) Broadcast() {
	switch sched.CurMode() {
	case sched.ModeActive:
		for _, w := range c.waiters {
			w.signaled = true
		}
		c.waiters = nil
		sched.Cur().Yield(sched.Op{Kind: "broadcast", Obj: c})
	case sched.ModeAborting:
	default:
		c.real.Broadcast()
	}
}

// Waiters reports how many threads are parked in Wait (for harness invariants).
func (c *Cond) Waiters() int { return len(c.waiters) }
