// Package vsync stands in for "sync" in rewritten golib files (see tools/mkoverlay).
// Outside a scheduler run every type delegates to the real sync primitive; inside a run Lock,
// Unlock, Wait, Signal and Broadcast are scheduling points with modelled blocking semantics.
package vsync

import (
	"sync"
	"unsafe"

	"github.com/whatap/golib/verifshim/sched"
)

type Locker = sync.Locker
type WaitGroup = sync.WaitGroup
type Once = sync.Once
type Pool = sync.Pool
type Map = sync.Map

// Mutex is a drop-in for sync.Mutex (zero value ready to use).
type Mutex struct {
	real  sync.Mutex
	held  bool
	epoch int // execution in which held was set; a stale epoch means "left locked by an abandoned run"
}

// YieldAfterLock adds a scheduling point right after a mutex has been acquired, so that another
// thread can run while the lock is held before the critical section has done anything (a copy of the
// mutex taken at that moment is a locked mutex nobody will unlock). Off by default: it multiplies
// the schedules and changes nothing for code that always goes through the lock.
var YieldAfterLock bool

//go:norace
func (m *Mutex) isHeld() bool { return m.held && m.epoch == sched.Epoch() }

//go:norace
func (m *Mutex) isFree() bool { return !m.isHeld() }

//go:norace
func (m *Mutex) Lock() {
	switch sched.CurMode() {
	case sched.ModeActive:
		x := sched.Cur()
		x.Yield(sched.Op{Kind: "lock", Obj: m, Enabled: m.isFree})
		m.held = true
		m.epoch = sched.Epoch()
		sched.RaceAcquire(unsafe.Pointer(&m.real)) // the edge sync.Mutex gives: previous Unlock -> this Lock
		if YieldAfterLock {
			x.Yield(sched.Op{Kind: "locked", Obj: m})
		}
	case sched.ModeAborting:
	default:
		m.real.Lock()
	}
}

//go:norace
func (m *Mutex) TryLock() bool {
	switch sched.CurMode() {
	case sched.ModeActive:
		x := sched.Cur()
		x.Yield(sched.Op{Kind: "trylock", Obj: m})
		if m.isHeld() {
			return false
		}
		m.held = true
		m.epoch = sched.Epoch()
		sched.RaceAcquire(unsafe.Pointer(&m.real))
		return true
	case sched.ModeAborting:
		return true
	default:
		return m.real.TryLock()
	}
}

//go:norace
func (m *Mutex) Unlock() {
	switch sched.CurMode() {
	case sched.ModeActive:
		if !m.isHeld() {
			panic("vsync: unlock of unlocked mutex")
		}
		sched.RaceRelease(unsafe.Pointer(&m.real))
		m.held = false
		sched.Cur().Yield(sched.Op{Kind: "unlock", Obj: m})
	case sched.ModeAborting:
	default:
		m.real.Unlock()
	}
}

// Held reports the modelled state (for harness invariants).
//
//go:norace
func (m *Mutex) Held() bool { return m.isHeld() }

type waiter struct{ signaled bool }

//go:norace
func (w *waiter) isSignaled() bool { return w.signaled }

// Cond is a drop-in for sync.Cond.
type Cond struct {
	L       Locker
	real    *sync.Cond
	waiters []*waiter
}

func NewCond(l Locker) *Cond {
	return &Cond{L: l, real: sync.NewCond(l)}
}

//go:norace
func (c *Cond) Wait() {
	switch sched.CurMode() {
	case sched.ModeActive:
		x := sched.Cur()
		w := &waiter{}
		c.waiters = append(c.waiters, w)
		// release atomically with enqueueing, as sync.Cond does
		if m, ok := c.L.(*Mutex); ok {
			if !m.isHeld() {
				panic("vsync: Cond.Wait without holding L")
			}
			sched.RaceRelease(unsafe.Pointer(&m.real))
			m.held = false
		} else {
			c.L.Unlock()
		}
		x.Yield(sched.Op{Kind: "condwait", Obj: c, Enabled: w.isSignaled})
		c.L.Lock()
	case sched.ModeAborting:
	default:
		c.real.Wait()
	}
}

//go:norace
func (c *Cond) Signal() {
	switch sched.CurMode() {
	case sched.ModeActive:
		if len(c.waiters) > 0 {
			c.waiters[0].signaled = true
			c.waiters = c.waiters[1:]
		}
		sched.Cur().Yield(sched.Op{Kind: "signal", Obj: c})
	case sched.ModeAborting:
	default:
		c.real.Signal()
	}
}

//go:norace
func (c *Cond) Broadcast() {
	switch sched.CurMode() {
	case sched.ModeActive:
		for _, w := range c.waiters {
			w.signaled = true
		}
		c.waiters = nil
		sched.Cur().Yield(sched.Op{Kind: "broadcast", Obj: c})
	case sched.ModeAborting:
	default:
		c.real.Broadcast()
	}
}

// Waiters reports how many threads are parked in Wait (for harness invariants).
//
//go:norace
func (c *Cond) Waiters() int { return len(c.waiters) }

// RWMutex is a drop-in for sync.RWMutex (zero value ready to use): inside a scheduler run its four
// operations are scheduling points with the blocking semantics of a readers/writer lock (no writer
// preference is modelled: any enabled waiter may go next, which is a superset of what Go allows).
type RWMutex struct {
	real    sync.RWMutex
	writer  bool
	readers int
	epoch   int
	wtok    int // happens-before tokens for the race mode (what sync.RWMutex announces)
	rtok    int
}

//go:norace
func (m *RWMutex) fresh() {
	if m.epoch != sched.Epoch() {
		m.writer, m.readers, m.epoch = false, 0, sched.Epoch()
	}
}

//go:norace
func (m *RWMutex) canWrite() bool { m.fresh(); return !m.writer && m.readers == 0 }

//go:norace
func (m *RWMutex) canRead() bool { m.fresh(); return !m.writer }

//go:norace
func (m *RWMutex) Lock() {
	switch sched.CurMode() {
	case sched.ModeActive:
		sched.Cur().Yield(sched.Op{Kind: "lock", Obj: m, Enabled: m.canWrite})
		m.fresh()
		m.writer = true
		sched.RaceAcquire(unsafe.Pointer(&m.wtok))
		sched.RaceAcquire(unsafe.Pointer(&m.rtok))
	case sched.ModeAborting:
	default:
		m.real.Lock()
	}
}

//go:norace
func (m *RWMutex) Unlock() {
	switch sched.CurMode() {
	case sched.ModeActive:
		m.fresh()
		if !m.writer {
			panic("vsync: Unlock of an RWMutex that is not write-locked")
		}
		sched.RaceRelease(unsafe.Pointer(&m.wtok))
		m.writer = false
		sched.Cur().Yield(sched.Op{Kind: "unlock", Obj: m})
	case sched.ModeAborting:
	default:
		m.real.Unlock()
	}
}

//go:norace
func (m *RWMutex) RLock() {
	switch sched.CurMode() {
	case sched.ModeActive:
		sched.Cur().Yield(sched.Op{Kind: "rlock", Obj: m, Enabled: m.canRead})
		m.fresh()
		m.readers++
		sched.RaceAcquire(unsafe.Pointer(&m.wtok))
	case sched.ModeAborting:
	default:
		m.real.RLock()
	}
}

//go:norace
func (m *RWMutex) RUnlock() {
	switch sched.CurMode() {
	case sched.ModeActive:
		m.fresh()
		if m.readers <= 0 {
			panic("vsync: RUnlock of an RWMutex that is not read-locked")
		}
		sched.RaceReleaseMerge(unsafe.Pointer(&m.rtok))
		m.readers--
		sched.Cur().Yield(sched.Op{Kind: "runlock", Obj: m})
	case sched.ModeAborting:
	default:
		m.real.RUnlock()
	}
}

// RLocker mirrors sync.RWMutex.RLocker.
func (m *RWMutex) RLocker() Locker { return (*rlocker)(m) }

type rlocker RWMutex

func (r *rlocker) Lock()   { (*RWMutex)(r).RLock() }
func (r *rlocker) Unlock() { (*RWMutex)(r).RUnlock() }
