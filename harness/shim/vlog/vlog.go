// Package vlog stands in for "log" in rewritten golib files: the same line format, but the logger's
// private mutex is a vsync.Mutex so that the cooperative scheduler sees it (a real mutex held
// across a scheduling point inside the writer would block the whole explorer).
package vlog

import (
	"fmt"
	"io"

	"github.com/whatap/golib/verifshim/vsync"
	"github.com/whatap/golib/verifshim/vtime"
)

const (
	Ldate = 1 << iota
	Ltime
	Lmicroseconds
	Llongfile
	Lshortfile
	LUTC
	Lmsgprefix
	LstdFlags = Ldate | Ltime
)

type Logger struct {
	mu     vsync.Mutex
	prefix string
	flag   int
	out    io.Writer
}

func New(out io.Writer, prefix string, flag int) *Logger {
	return &Logger{out: out, prefix: prefix, flag: flag}
}

func (l *Logger) SetOutput(w io.Writer) {
	l.mu.Lock()
	defer l.mu.Unlock()
	l.out = w
}

func (l *Logger) SetFlags(flag int) {
	l.mu.Lock()
	defer l.mu.Unlock()
	l.flag = flag
}

func (l *Logger) Flags() int { return l.flag }

func (l *Logger) output(s string) {
	now := vtime.Now()
	l.mu.Lock()
	defer l.mu.Unlock()
	buf := l.prefix
	if l.flag&Ldate != 0 {
		buf += now.Format("2006/01/02 ")
	}
	if l.flag&Ltime != 0 {
		buf += now.Format("15:04:05 ")
	}
	buf += s
	if len(s) == 0 || s[len(s)-1] != '\n' {
		buf += "\n"
	}
	l.out.Write([]byte(buf))
}

func (l *Logger) Println(v ...interface{})               { l.output(fmt.Sprintln(v...)) }
func (l *Logger) Printf(format string, v ...interface{}) { l.output(fmt.Sprintf(format, v...)) }
func (l *Logger) Print(v ...interface{})                 { l.output(fmt.Sprint(v...)) }
