// Package vioutil stands in for "io/ioutil" in rewritten golib files.
package vioutil

import (
	"io"
	"io/ioutil"

	"github.com/whatap/golib/verifshim/vos"
)

var (
	ReadAll   = io.ReadAll
	NopCloser = io.NopCloser
	ReadFile  = ioutil.ReadFile
	WriteFile = ioutil.WriteFile
	Discard   = io.Discard
)

func ReadDir(dir string) ([]vos.FileInfo, error) { return vos.ReadDirInfos(dir) }
