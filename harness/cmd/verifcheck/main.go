// verifcheck <ID> <quick|thorough> : runs one property's check and writes /verif/evidence/<ID>.json.
package main

import (
	"fmt"
	"os"
	"runtime"
	"strings"

	"verif/engine/enum"
	"verif/engine/evid"
	"verif/engine/shard"
	"verif/props/c01"
	"verif/props/c02"
	"verif/props/c03"
	"verif/props/c04"
	"verif/props/c05"
	"verif/props/c06"
	"verif/props/c07"
	"verif/props/c08"
	"verif/props/c09"
	"verif/props/c10"
	"verif/props/c11"
	"verif/props/c12"
	"verif/props/c13"
	"verif/props/c14"
	"verif/props/c15"
	"verif/props/c16"
	"verif/props/c17"
	"verif/props/c18"
	"verif/props/c19"
	"verif/props/c20"
)

type prop struct {
	level string
	run   func(*evid.Ctx)
}

var props = map[string]prop{
	"C01": {"exploration", c01.Run},
	"C02": {"exploration", c02.Run},
	"C03": {"exploration", c03.Run},
	"C04": {"fault_enumeration", c04.Run},
	"C05": {"exploration", c05.Run},
	"C06": {"model_checking", c06.Run},
	"C07": {"exploration", c07.Run},
	"C08": {"exploration", c08.Run},
	"C09": {"model_checking", c09.Run},
	"C10": {"model_checking", c10.Run},
	"C11": {"model_checking", c11.Run},
	"C12": {"model_checking", c12.Run},
	"C13": {"model_checking", c13.Run},
	"C14": {"model_checking", c14.Run},
	"C15": {"exploration", c15.Run},
	"C16": {"model_checking", c16.Run},
	"C17": {"model_checking", c17.Run},
	"C18": {"model_checking", c18.Run},
	"C19": {"exploration", c19.Run},
	"C20": {"exploration", c20.Run},
}

var raceWorkers = map[string]func(*evid.Ctx){"C10": c10.RaceWorker, "C18": c18.RaceWorker, "C06": c06.RaceWorker, "C16": c16.RaceWorker, "C17": c17.RaceWorker, "C15": c15.RaceWorker}

func main() {
	if len(os.Args) < 3 {
		fmt.Fprintln(os.Stderr, "usage: verifcheck <ID> <quick|thorough>")
		os.Exit(2)
	}
	id, tier := os.Args[1], os.Args[2]
	p, ok := props[id]
	if !ok {
		fmt.Fprintln(os.Stderr, "verifcheck: no check for", id)
		os.Exit(2)
	}
	if tier != "quick" && tier != "thorough" {
		fmt.Fprintln(os.Stderr, "verifcheck: tier must be quick or thorough")
		os.Exit(2)
	}
	c := evid.New(id, tier, p.level)
	evid.StartWatchdog(c)
	// a panic of the code under test that a check did not anticipate is a finding, not a crash
	enum.OnPanic = func(r interface{}, stack string) {
		// the innermost non-runtime frame decides whose panic it is: the library's (a finding) or
		// this harness's own (a broken check, which must not be reported as a violation)
		site := ""
		if i := strings.Index(stack, "\npanic("); i >= 0 {
			stack = stack[i+1:] // frames above the panic call belong to the recovering deferred function
		}
		for _, ln := range strings.Split(stack, "\n") {
			ln = strings.TrimSpace(ln)
			if !strings.Contains(ln, ".go:") || strings.Contains(ln, "/src/runtime/") {
				continue
			}
			if strings.Contains(ln, "/repo/") || (os.Getenv("VERIF_REPO") != "" && strings.Contains(ln, os.Getenv("VERIF_REPO")+"/")) {
				site = strings.SplitN(ln, " +0x", 2)[0]
			}
			break
		}
		if site == "" {
			fmt.Fprintf(os.Stderr, "CHECK-BROKEN: panic inside the harness: %v\n%s\n", r, stack)
			os.Exit(2)
		}
		c.Violation(id+":panic:"+site, fmt.Sprintf("the code under test panicked inside a case of this check: %v at %s", r, site), map[string]interface{}{"panic": fmt.Sprint(r), "stack": stack})
	}
	if shard.RaceWorker() != nil {
		rw, ok := raceWorkers[id]
		if !ok {
			fmt.Fprintln(os.Stderr, "verifcheck: no race pass for", id)
			os.Exit(2)
		}
		rw(c)
		os.Exit(c.FinishWorker())
	}
	func() {
		defer func() {
			if r := recover(); r != nil {
				buf := make([]byte, 8192)
				enum.OnPanic(r, string(buf[:runtime.Stack(buf, false)]))
			}
		}()
		p.run(c)
	}()
	if shard.Worker() != nil {
		os.Exit(c.FinishWorker())
	}
	os.Exit(c.Finish())
}
