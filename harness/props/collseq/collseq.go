// Package collseq decides C09 (linked maps/sets vs insertion-ordered dictionary) and C12 (plain
// maps/sets vs mathematical map/set) by explicit-state search (engine E2) over operation histories
// of the real types in lock-step with the reference model of props/coll.
package collseq

import (
	"fmt"
	"os"
	"reflect"
	"sort"
	"strings"
	"sync"

	gio "github.com/whatap/golib/io"

	"verif/engine/evid"
	"verif/engine/seqx"
	"verif/props/coll"
)

// InfoSink receives out-of-property observations.
var InfoSink func(string)

type config struct {
	desc    *coll.Desc
	ctor    int
	prefill int // number of distinct filler keys inserted before the search starts
	nk, nv  int
	depth   int
}

func (cf config) String() string {
	return fmt.Sprintf("%s/%s/prefill=%d/keys=%d/vals=%d/depth<=%d", cf.desc.Name, cf.desc.Ctors[cf.ctor].Name, cf.prefill, cf.nk, cf.nv, cf.depth)
}

// filler keys: distinct, outside the alphabets, spread over buckets
func fillerKey(t reflect.Type, i int) reflect.Value {
	switch t.Kind() {
	case reflect.Int32:
		return reflect.ValueOf(int32(1000 + i))
	case reflect.Int64:
		return reflect.ValueOf(int64(1000 + i))
	case reflect.String:
		return reflect.ValueOf(fmt.Sprintf("f%03d", i))
	case reflect.Interface:
		return reflect.ValueOf(coll.HK{H: uint(1000 + i), ID: 1000 + i})
	}
	panic("fillerKey")
}

var skipMethods = map[string]bool{
	"ToBytes": true, "ToObject": true, // serialisation of the linked maps is not part of C09; IntIntMap's is checked separately for C12
	"GetKeySet": true, "ToKeySet": true, "ValueIterator": true, // return foreign containers; not in the property's operation list
}

// alphabet builds the transition operations and the read-only observation operations of a type.
func alphabet(d *coll.Desc, nk, nv int) (ops []coll.Op, obs []coll.Op, unjudged []string) {
	obj := d.New()
	probe := coll.NewDict(d)
	for _, m := range coll.ExportedMethods(obj) {
		if skipMethods[m.Name] {
			continue
		}
		sets := coll.ArgSets(d, obj, m, nk, nv)
		if sets == nil {
			unjudged = append(unjudged, m.Name+"(no argument alphabet)")
			continue
		}
		for _, a := range sets {
			op := coll.MkOp(m.Name, a...)
			if _, known := probe.Apply(op); !known {
				unjudged = append(unjudged, m.Name)
				break
			}
			ops = append(ops, op)
		}
	}
	// observation: every read-only accessor that exists, over the whole key/value alphabet
	has := func(n string) bool { _, ok := reflect.TypeOf(obj).MethodByName(n); return ok }
	for _, n := range []string{"Size", "IsEmpty", "IsFull", "Keys", "Values", "Entries", "KeyArray", "GetArray", "ValueArray", "GetFirstKey", "GetLastKey", "GetFirstValue", "GetLastValue", "GetFirst", "GetLast"} {
		if has(n) {
			mt, _ := reflect.TypeOf(obj).MethodByName(n)
			if mt.Type.NumIn() == 1 {
				obs = append(obs, coll.MkOp(n))
			}
		}
	}
	for _, k := range coll.Keys(d, nk) {
		for _, n := range []string{"ContainsKey", "Contains", "HasKey", "Get"} {
			if has(n) {
				obs = append(obs, coll.MkOp(n, k))
			}
		}
	}
	return
}

func buildSys(cf config, ops, obs []coll.Op) *seqx.Sys {
	d := cf.desc
	type pair struct {
		impl  interface{}
		model *coll.Dict
	}
	step := func(impl, model interface{}, op coll.Op) string {
		m := model.(*coll.Dict)
		if op.Method == "Sort" && m.Max > 0 && len(m.Ents) > m.Max {
			// SetMax does not evict by itself, so a structure may hold more than the bound until the next
			// insertion trims it (that is modelled: a seeded change trimmed by one entry only). Sort
			// rebuilds the structure by re-inserting, which trims in an order the property does not
			// define: sorting an over-full structure is a disabled transition
			return ""
		}
		res := coll.Apply(impl, op)
		if op.Method == "ToString" || op.Method == "ToFormatString" {
			// not an operation of C09/C12: a panic is reported as information only
			if strings.HasPrefix(res, "panic:") && InfoSink != nil {
				InfoSink(fmt.Sprintf("%s.%s: %s (outside the property's operation list)", d.Name, op.Method, res))
			}
			return ""
		}
		exp, _ := m.Apply(op)
		if !m.Match(exp, res) {
			return fmt.Sprintf("%s returned %s, model allows %s", op.Label, res, exp.String())
		}
		return ""
	}
	return &seqx.Sys{
		Name: cf.String(),
		NOps: len(ops),
		New: func() (interface{}, interface{}) {
			impl := d.Ctors[cf.ctor].New()
			model := coll.NewDict(d)
			for i := 0; i < cf.prefill; i++ {
				k := fillerKey(d.KeyT, i)
				var op coll.Op
				if d.ValT == nil {
					op = coll.MkOp("Put", k)
				} else {
					op = coll.MkOp("Put", k, coll.Vals(d.ValT, 1)[0])
				}
				coll.Apply(impl, op)
				model.Apply(op)
			}
			return impl, model
		},
		Step:    func(impl, model interface{}, op int) string { return step(impl, model, ops[op]) },
		OpLabel: func(op int) string { return ops[op].Label },
		Observe: func(impl, model interface{}) string {
			for _, o := range obs {
				if o.Method == "Get" && false {
					continue
				}
				if m := step(impl, model, o); m != "" {
					return m
				}
			}
			if d.Family == "map" {
				if m := wireRoundTrip(d, impl); m != "" {
					return m
				}
			}
			return ""
		},
		MaxDepth: cf.depth,
		ModelKey: func(model interface{}) string { return model.(*coll.Dict).Key() },
	}
}

// wireRoundTrip: the serialized form of the int-to-int map reads back to an equal map (C12).
func wireRoundTrip(d *coll.Desc, impl interface{}) (res string) {
	rv := reflect.ValueOf(impl)
	tb, to := rv.MethodByName("ToBytes"), rv.MethodByName("ToObject")
	if !tb.IsValid() || !to.IsValid() {
		return ""
	}
	defer func() {
		if r := recover(); r != nil {
			res = fmt.Sprintf("ToBytes/ToObject panicked: %v", r)
		}
	}()
	out := gio.NewDataOutputX()
	tb.Call([]reflect.Value{reflect.ValueOf(out)})
	b := out.ToByteArray()
	in := gio.NewDataInputX(b)
	fresh := reflect.ValueOf(d.New())
	fresh.MethodByName("ToObject").Call([]reflect.Value{reflect.ValueOf(in)})
	if in.Available() != 0 {
		return fmt.Sprintf("ToObject left %d of %d bytes unread", in.Available(), len(b))
	}
	a := coll.Apply(impl, coll.MkOp("Entries"))
	c := coll.Apply(fresh.Interface(), coll.MkOp("Entries"))
	sa, sc := strings.Fields(strings.Trim(a, "<>")), strings.Fields(strings.Trim(c, "<>"))
	sort.Strings(sa)
	sort.Strings(sc)
	if strings.Join(sa, " ") != strings.Join(sc, " ") {
		return fmt.Sprintf("ToBytes then ToObject gives %s, original %s", c, a)
	}
	return ""
}

func configs(families map[string]bool, thorough bool) []config {
	var out []config
	for _, d := range coll.Descs {
		if !families[d.Family] {
			continue
		}
		nk, depth := 3, 5
		if thorough {
			nk, depth = 4, 6
		}
		// default constructor, empty: widest alphabet
		out = append(out, config{d, 0, 0, nk, 2, depth})
		// every other constructor (capacity x load factor): growth from tiny tables
		for ci := 1; ci < len(d.Ctors); ci++ {
			dd := 5
			if thorough {
				dd = 7
			}
			out = append(out, config{d, ci, 0, 3, 1, dd})
		}
		// prefilled around the growth thresholds of the default 101-bucket table (75, 152)
		pf := []int{74, 75, 76, 151, 152}
		for _, n := range pf {
			dd := 3
			if thorough {
				dd = 4
			}
			out = append(out, config{d, 0, n, 3, 1, dd})
		}
	}
	return out
}

// Run executes the search for the given families.
func Run(c *evid.Ctx, families map[string]bool) {
	cfs := configs(families, c.Thorough())
	infoSeen := map[string]bool{}
	var infoMu sync.Mutex
	InfoSink = func(s string) {
		infoMu.Lock()
		if !infoSeen[s] {
			infoSeen[s] = true
			c.Info("%s", s)
		}
		infoMu.Unlock()
	}
	allFix := true
	unj := map[string]bool{}
	for _, cf := range cfs {
		if only := os.Getenv("VERIF_ONLY_TYPE"); only != "" && cf.desc.Name != only {
			continue
		}
		ops, obs, unjudged := alphabet(cf.desc, cf.nk, cf.nv)
		for _, u := range unjudged {
			unj[cf.desc.Name+"."+u] = true
		}
		sys := buildSys(cf, ops, obs)
		r := seqx.BFS(sys)
		c.Count("states", int64(r.States))
		c.Count("transitions", int64(r.Transitions))
		c.Count("configurations", 1)
		if r.Fixpoint {
			c.Count("configurations_searched_to_fixpoint", 1)
		} else {
			allFix = false
		}
		if cf.prefill == 0 && cf.ctor == 0 {
			c.Sample(map[string]interface{}{"config": cf.String(), "operations": len(ops), "states": r.States, "transitions": r.Transitions, "depth": r.Depth, "fixpoint": r.Fixpoint, "frontier_histories": r.SampleHist})
		}
		for _, v := range r.Viols {
			key := fmt.Sprintf("%s:%s:%s", c.ID, cf.desc.Name, violClass(v))
			c.Violation(key, fmt.Sprintf("%s: after %v: %s", cf.String(), v.Labels, v.What),
				map[string]interface{}{"engine": "E2", "config": cf.String(), "history": v.Labels, "what": v.What})
		}
	}
	if !allFix {
		c.NotExhaustive("not every configuration reached a fixpoint: accumulating operations (Add*) make the value domain unbounded; those configurations are complete to the stated depth")
	}
	var ul []string
	for u := range unj {
		ul = append(ul, u)
	}
	if len(ul) > 0 {
		c.Cov["methods_not_judged"] = ul
	}
	c.Cov["traces_validated_against_impl"] = c.Counter("transitions")
	c.Cov["rule"] = "states = distinct canonical heaps of the real object (reflect walk, pointers numbered in discovery order); transitions = real operations executed from a replayed shortest history and compared with the reference model (result of every call; full observation of every new state)"
	c.Assume("the reference model's lenient points are those of DESIGN.md Appendix A (which 'nothing' value an absent key yields; first/last of an empty structure; whether Add returns the old or the new value)")
}

// violClass derives a stable key from a violation: the method of the last operation plus the kind.
func violClass(v seqx.Viol) string {
	last := ""
	if len(v.Labels) > 0 {
		last = v.Labels[len(v.Labels)-1]
		if i := strings.Index(last, "("); i > 0 {
			last = last[:i]
		}
	}
	w := v.What
	// the mismatching call may be an observation rather than the last transition
	meth := last
	if i := strings.Index(w, "("); i > 0 {
		f := strings.Fields(w[:i])
		meth2 := f[len(f)-1]
		if meth2 != last {
			meth = last + ">" + meth2
		}
	}
	kind := "mismatch"
	if strings.Contains(w, "panic:") {
		kind = "panic"
	}
	return meth + ":" + kind
}
