package c17

import (
	"fmt"
	"sort"

	"verif/engine/dfs"
	"verif/engine/evid"
	"verif/engine/racepass"
)

// RaceWorker (in the -race build) validates the premise of the schedule enumeration of this
// property — code between two synchronisation operations runs atomically, which is sound only for
// data-race-free code — by running the same scenarios in the race mode of engine E1 (preemption
// bound 1): two accesses of library code that no synchronisation of the library orders are reported.
func RaceWorker(c *evid.Ctx) {
	var items []racepass.Item
	for _, s := range lscens(false) {
		items = append(items, racepass.Item{Name: s.String(), Sc: s.scenario(), Cfg: dfs.Config{Preemptions: 1, Faults: 0, StepCap: 6000, MaxExec: 20000}})
	}
	found := racepass.Worker(c, items)
	var keys []string
	for k := range found {
		keys = append(keys, k)
	}
	sort.Strings(keys)
	for _, k := range keys {
		f := found[k]
		c.Violation("C17:race:"+k, fmt.Sprintf("%s — data race: %s (%s) and %s (%s) are not ordered by any synchronisation in schedule %v", f.Item, racepass.Method(f.Rep.Sites[0]), f.Rep.Kinds[0], racepass.Method(f.Rep.Sites[1]), f.Rep.Kinds[1], f.Choices),
			map[string]interface{}{"engine": "E1-race", "scenario": f.Item, "choices": f.Choices, "report": f.Rep.Text, "seen_in_schedules": f.N})
	}
}
