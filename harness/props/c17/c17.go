// Package c17 decides C17: the file logger keeps lines whole and in order, rotates by date, prunes
// only its own dated files and serves only slices of its own log files — E1 (loggers x cycle x clock
// on an in-memory file system and virtual time) plus exhaustive products for retention and the read
// window.
package c17

import (
	"fmt"
	pathpkg "path"
	"sort"
	"strings"
	"time"

	"verif/engine/dfs"
	"verif/engine/evid"
	"verif/engine/shard"

	"github.com/whatap/golib/logger"
	"github.com/whatap/golib/logger/logfile"
	"github.com/whatap/golib/verifshim/sched"
	"github.com/whatap/golib/verifshim/vos"
	"github.com/whatap/golib/verifshim/vrt"
	"github.com/whatap/golib/verifshim/vtime"
)

const home = "/whatap-home"
const logsDir = home + "/logs"

func newLogger(level int) *logfile.FileLogger {
	return logfile.NewFileLogger(logfile.WithHomePath(home), logfile.WithOnameLogID("boot", "whatap"), logfile.WithLevel(level))
}

// ---- retention ---------------------------------------------------------------------------------------------

type fileSpec struct {
	name    string
	dir     bool
	dated   bool // a dated file carrying the logger's id prefix
	ageDays int
}

func retention(c *evid.Ctx) {
	vrt.Policy = vrt.PolicySuppressed
	defer func() { vrt.Policy = vrt.PolicyReal }()
	nows := []time.Time{time.Date(2050, 6, 15, 10, 0, 0, 0, time.UTC), time.Date(2001, 3, 1, 0, 0, 1, 0, time.UTC), time.Date(2024, 2, 29, 23, 59, 59, 0, time.UTC)}
	for _, now := range nows {
		for _, keep := range []int{1, 7, 30} {
			for _, rotation := range []bool{true, false} {
				ymd := func(age int) string { return now.AddDate(0, 0, -age).Format("20060102") }
				alphabet := []fileSpec{
					{"whatap-boot-" + ymd(0) + ".log", false, true, 0},
					{"whatap-boot-" + ymd(keep) + ".log", false, true, keep},
					{"whatap-boot-" + ymd(keep+1) + ".log", false, true, keep + 1},
					{"whatap-boot-" + ymd(400) + ".log", false, true, 400},
					{"whatap-other-" + ymd(keep+5) + ".log", false, true, keep + 5}, // same id, other object name
					{"whatap2-boot-" + ymd(400) + ".log", false, false, 400},        // a different id sharing a textual prefix
					{"whatapx-" + ymd(400) + ".log", false, false, 400},
					{"whatap-x-profiler.log", false, false, 0}, // undated, 8-character last token
					{"whatap-x-abcdefgh.log", false, false, 0},
					{"whatap-x-20231332.log", false, false, 0},             // eight digits that are not a date
					{"whatap-a-20240230.log", false, false, 0},             // an impossible day, sorting before every other name
					{"whatap-boot-" + ymd(401) + ".log", true, false, 401}, // a directory with a matching name
					{"unrelated-" + ymd(400) + ".txt", false, false, 400},
				}
				// subsets: every single file, every pair, the full set, the full set minus one
				var subsets [][]int
				n := len(alphabet)
				all := make([]int, n)
				for i := range all {
					all[i] = i
					subsets = append(subsets, []int{i})
					for j := i + 1; j < n; j++ {
						subsets = append(subsets, []int{i, j})
					}
				}
				subsets = append(subsets, all)
				for i := 0; i < n; i++ {
					var s []int
					for j := 0; j < n; j++ {
						if j != i {
							s = append(s, j)
						}
					}
					subsets = append(subsets, s)
				}
				for _, sub := range subsets {
					c.Count("retention_cases", 1)
					c.Count("evaluations", 1)
					mem := vos.NewMemFS()
					vos.Use(mem)
					vtime.SetVirtual(now)
					mem.MkdirAll(logsDir)
					fl := newLogger(logger.LOG_LEVEL_WARN)
					fl.VerifSet(0, keep, rotation)
					current := map[string]bool{}
					for _, nm := range mem.List(logsDir) {
						current[nm] = true // the logger's own freshly opened file
					}
					want := map[string]bool{}
					for _, i := range sub {
						f := alphabet[i]
						if f.dir {
							mem.MkdirAll(logsDir + "/" + f.name)
							continue
						}
						mem.WriteFile(logsDir+"/"+f.name, []byte("x\n"))
						if f.dated && rotation && f.ageDays > keep {
							want[f.name] = true
						}
					}
					func() {
						defer func() {
							if r := recover(); r != nil {
								c.Violation("C17:retention:panic", fmt.Sprintf("retention panicked: %v", r), nil)
							}
						}()
						fl.VerifRetention()
					}()
					left := map[string]bool{}
					for _, nm := range mem.List(logsDir) {
						left[nm] = true
					}
					var names []string
					for _, i := range sub {
						names = append(names, alphabet[i].name)
					}
					for _, i := range sub {
						f := alphabet[i]
						gone := !left[f.name]
						if gone && !want[f.name] {
							c.Violation("C17:retention:removed:"+classOf(f), fmt.Sprintf("now=%s keepDays=%d rotation=%v directory %v: retention removed %q, which is not one of the logger's own dated files older than the keep-days setting", now.Format("2006-01-02"), keep, rotation, names, f.name),
								map[string]interface{}{"now": now.Format("2006-01-02"), "keep_days": keep, "rotation": rotation, "directory": names, "removed": f.name})
						}
						if !gone && want[f.name] {
							c.Violation("C17:retention:kept:"+classOf(f), fmt.Sprintf("now=%s keepDays=%d rotation=%v directory %v: retention kept %q although it is %d days old", now.Format("2006-01-02"), keep, rotation, names, f.name, f.ageDays),
								map[string]interface{}{"now": now.Format("2006-01-02"), "keep_days": keep, "rotation": rotation, "directory": names, "kept": f.name})
						}
					}
					vos.Use(nil)
					vtime.ClearVirtual()
				}
			}
		}
	}
}

// ---- the non-rotating file across re-opens ----------------------------------------------------------------------

// reopen: with rotation switched off the logger writes to one undated file, which it opens again
// whenever rotation is toggled and whenever another logger object (or a restarted process) uses the
// same home, id and object name: whatever the file already holds stays, new lines go behind it.
// Every history of length <= 3 over {log a line, rotation off + cycle, rotation on + cycle, a second
// logger object takes over} is run on the in-memory file system (writes honour the open flags).
func reopen(c *evid.Ctx) {
	vrt.Policy = vrt.PolicySuppressed
	defer func() { vrt.Policy = vrt.PolicyReal }()
	acts := []string{"log", "off", "on", "second-logger"}
	var rec func(h []string)
	rec = func(h []string) {
		if len(h) > 0 {
			c.Count("reopen_histories", 1)
			c.Count("evaluations", 1)
			mem := vos.NewMemFS()
			vos.Use(mem)
			vtime.SetVirtual(time.Date(2024, 3, 10, 12, 0, 0, 0, time.UTC))
			mem.MkdirAll(logsDir)
			fl := newLogger(logger.LOG_LEVEL_WARN)
			fl.VerifSet(0, 7, true)
			fl.VerifInitCycle()
			rotation := true
			n := 0
			var want []string // lines expected in the undated file, in order
			logLine := func() {
				n++
				msg := fmt.Sprintf("reopen-line-%d-payload", n)
				fl.Warn(msg)
				if !rotation {
					want = append(want, msg)
				}
			}
			for _, a := range h {
				switch a {
				case "log":
					logLine()
				case "off", "on":
					rotation = a == "on"
					fl.VerifSet(0, 7, rotation)
					fl.VerifCycle()
				case "second-logger":
					// a new object starts as run() starts it (rotation on, the constructor's default); the
					// configuration then arrives and the next cycle follows it
					fl = newLogger(logger.LOG_LEVEL_WARN)
					fl.VerifInitCycle()
					fl.VerifSet(0, 7, rotation)
					fl.VerifCycle()
				}
			}
			logLine()
			data, _ := mem.ReadFile(logsDir + "/whatap-boot.log")
			var got []string
			for _, l := range strings.Split(string(data), "\n") {
				if i := strings.Index(l, "reopen-line-"); i >= 0 {
					got = append(got, l[i:])
				}
			}
			ok := len(got) == len(want)
			for i := 0; ok && i < len(want); i++ {
				ok = strings.HasPrefix(got[i], want[i])
			}
			if !ok {
				c.Violation("C17:reopen:lines", fmt.Sprintf("history %v then one more line: the undated log file holds %v, the lines logged while rotation was off are %v (in that order)", h, got, want), map[string]interface{}{"engine": "E2", "history": h})
			}
			vos.Use(nil)
			vtime.ClearVirtual()
		}
		if len(h) == 3 {
			return
		}
		for _, a := range acts {
			rec(append(append([]string{}, h...), a))
		}
	}
	rec(nil)
}

// ---- suppression cache across its growth steps ---------------------------------------------------------------

// suppression: n distinct ids are logged at one instant, then the last, the first and the middle id are
// repeated at once (inside the interval: none may be written) and again after the interval (each must be
// written) - for every n up to 160, which takes the cache of last-logged times across its growth steps
// at 76 and 153 entries (a seeded change lost exactly the id that made the table grow).
func suppression(c *evid.Ctx) {
	vrt.Policy = vrt.PolicySuppressed
	defer func() { vrt.Policy = vrt.PolicyReal }()
	for n := 1; n <= 160; n++ {
		c.Count("suppression_cases", 1)
		c.Count("evaluations", 1)
		mem := vos.NewMemFS()
		vos.Use(mem)
		now := time.Date(2024, 3, 10, 12, 0, 0, 0, time.UTC)
		vtime.SetVirtual(now)
		mem.MkdirAll(logsDir)
		fl := newLogger(logger.LOG_LEVEL_WARN)
		fl.VerifSet(10, 7, true)
		id := func(i int) string { return fmt.Sprintf("WS%05d", i) }
		for i := 1; i <= n; i++ {
			fl.Println(id(i), fmt.Sprintf("first-%d-payload", i))
		}
		probes := []int{n, 1, (n + 1) / 2}
		for _, p := range probes {
			fl.Println(id(p), fmt.Sprintf("repeat-%d-payload", p))
		}
		vtime.Advance(10 * time.Second)
		for _, p := range probes {
			fl.Println(id(p), fmt.Sprintf("later-%d-payload", p))
			vtime.Advance(10 * time.Second) // probes may name the same id
		}
		var all strings.Builder
		for _, nm := range mem.List(logsDir) {
			data, _ := mem.ReadFile(logsDir + "/" + nm)
			all.Write(data)
		}
		text := all.String()
		verdict := ""
		for i := 1; i <= n && verdict == ""; i++ {
			if k := strings.Count(text, fmt.Sprintf("first-%d-payload", i)); k != 1 {
				verdict = fmt.Sprintf("lost-or-duplicate-line: the first line of id %s appears %d times", id(i), k)
			}
		}
		for _, p := range probes {
			if verdict != "" {
				break
			}
			if strings.Contains(text, fmt.Sprintf("repeat-%d-payload", p)) {
				verdict = fmt.Sprintf("rate-limit: id %s (number %d of %d distinct ids logged at one instant, interval 10 s) was repeated at once and written again", id(p), p, n)
			} else if !strings.Contains(text, fmt.Sprintf("later-%d-payload", p)) {
				verdict = fmt.Sprintf("lost-line: id %s repeated after the interval was not written", id(p))
			}
		}
		if verdict != "" {
			kind := strings.SplitN(verdict, ":", 2)[0]
			c.Violation("C17:suppression:"+kind, fmt.Sprintf("%d distinct ids: %s", n, verdict), map[string]interface{}{"engine": "E2", "distinct_ids": n})
		}
		vos.Use(nil)
		vtime.ClearVirtual()
	}
}

// intervalHistories: the suppression interval is a setting that changes while the logger runs. Every
// history (length <= 5) of logging one of two ids, letting 2 s or 11 s pass and setting the interval to
// 0, 1 or 10 s: a message is suppressed only while a line with its id was written less than the
// interval *now in force* ago, and a repeat inside an interval that did not change is suppressed.
func intervalHistories(c *evid.Ctx) {
	vrt.Policy = vrt.PolicySuppressed
	defer func() { vrt.Policy = vrt.PolicyReal }()
	type op struct {
		name string
		id   string
		adv  time.Duration
		iv   int
	}
	// the ids are the first ten characters of the message (the formatted calls derive the id that way);
	// Errorf and Warn pass the level gate (level WARN), Infof does not: a call that the level gate drops
	// writes nothing and must leave no trace in the suppression cache either
	ops := []op{{"Errorf(X)", "WX001-idAA", 0, -1}, {"Warn(X)", "WX001-idAA", 0, -1}, {"Infof(X)", "WX001-idAA", 0, -1}, {"Println(Y)", "WY002", 0, -1},
		{"+2s", "", 2 * time.Second, -1}, {"+11s", "", 11 * time.Second, -1},
		{"interval=0", "", 0, 0}, {"interval=1s", "", 0, 1}, {"interval=10s", "", 0, 10}}
	var rec func(hist []op)
	run := func(hist []op) {
		c.Count("interval_histories", 1)
		c.Count("evaluations", 1)
		mem := vos.NewMemFS()
		vos.Use(mem)
		defer vos.Use(nil)
		now := time.Date(2024, 3, 10, 12, 0, 0, 0, time.UTC)
		vtime.SetVirtual(now)
		defer vtime.ClearVirtual()
		mem.MkdirAll(logsDir)
		fl := newLogger(logger.LOG_LEVEL_WARN)
		iv := 10
		fl.VerifSet(iv, 7, true)
		type line struct {
			id      string
			at      time.Time
			payload string
			must    string // "written" | "suppressed" | "" (either)
		}
		var lines []line
		lastWritten := map[string]time.Time{} // by the reference reading of the property
		constSince := map[string]bool{}       // interval unchanged (and > 0) since the id's last written line
		desc := ""
		for i, o := range hist {
			desc += " " + o.name
			switch {
			case o.id != "":
				l := line{id: o.id, at: now, payload: fmt.Sprintf("payload-%d-of-%s", i, o.id)}
				lw, seen := lastWritten[o.id]
				switch {
				case o.name == "Infof(X)":
					l.must = "dropped"
				case iv == 0 || !seen || now.Sub(lw) >= time.Duration(iv)*time.Second:
					l.must = "written"
				case constSince[o.id]:
					l.must = "suppressed"
				}
				switch o.name {
				case "Errorf(X)":
					fl.Errorf("%s %s", o.id, l.payload)
				case "Warn(X)":
					fl.Warn(o.id, l.payload)
				case "Infof(X)":
					fl.Infof("%s %s", o.id, l.payload)
				default:
					fl.Println(o.id, l.payload)
				}
				lines = append(lines, l)
			case o.adv > 0:
				vtime.Advance(o.adv)
				now = now.Add(o.adv)
			default:
				iv = o.iv
				fl.VerifSet(iv, 7, true)
				for k := range constSince {
					constSince[k] = false
				}
			}
			if o.id != "" {
				// what was really written decides the rest of the history
				var all strings.Builder
				for _, nm := range mem.List(logsDir) {
					data, _ := mem.ReadFile(logsDir + "/" + nm)
					all.Write(data)
				}
				l := &lines[len(lines)-1]
				written := strings.Contains(all.String(), l.payload)
				if l.must == "dropped" {
					if written {
						c.Violation("C17:interval-history:level", fmt.Sprintf("history%s: the last message is below the configured level and was written", desc), map[string]interface{}{"engine": "E2", "history": desc})
						return
					}
					continue
				}
				if l.must == "written" && !written {
					c.Violation("C17:interval-history:lost-line", fmt.Sprintf("history%s: the last message (id %s) is not in the log although no line with its id was written within the interval now in force (%d s)", desc, l.id, iv), map[string]interface{}{"engine": "E2", "history": desc})
					return
				}
				if l.must == "suppressed" && written {
					c.Violation("C17:interval-history:rate-limit", fmt.Sprintf("history%s: the last message (id %s) was written although a line with its id was written less than the (unchanged) interval of %d s before", desc, l.id, iv), map[string]interface{}{"engine": "E2", "history": desc})
					return
				}
				if written {
					lastWritten[l.id] = now
					constSince[l.id] = iv > 0
				}
			}
		}
	}
	rec = func(hist []op) {
		if len(hist) > 0 && hist[len(hist)-1].id != "" {
			run(hist)
		}
		if len(hist) == 5 {
			return
		}
		for _, o := range ops {
			rec(append(append([]op{}, hist...), o))
		}
	}
	rec(nil)
}

func classOf(f fileSpec) string {
	switch {
	case f.dir:
		return "directory"
	case f.dated:
		return "own-dated"
	case strings.HasPrefix(f.name, "whatap-x-"), strings.HasPrefix(f.name, "whatap-a-"):
		return "undated-own-prefix"
	case strings.HasPrefix(f.name, "whatap"):
		return "similar-prefix"
	}
	return "unrelated"
}

// ---- read window ------------------------------------------------------------------------------------------------

func readWindow(c *evid.Ctx) {
	vrt.Policy = vrt.PolicySuppressed
	defer func() { vrt.Policy = vrt.PolicyReal }()
	content := func(n int) []byte {
		b := make([]byte, n)
		for i := range b {
			b[i] = byte('a' + i%26)
		}
		return b
	}
	for _, size := range []int{0, 1, 10, 4096} {
		mem := vos.NewMemFS()
		vos.Use(mem)
		vtime.SetVirtual(time.Date(2024, 3, 10, 12, 0, 0, 0, time.UTC))
		mem.MkdirAll(logsDir)
		fl := newLogger(logger.LOG_LEVEL_WARN)
		own := "whatap-boot-20240301.log"
		mem.WriteFile(logsDir+"/"+own, content(size))
		mem.WriteFile(home+"/outside.log", []byte("SECRET-OUTSIDE-THE-LOGS-DIRECTORY"))
		mem.WriteFile("/etc/absolute-secret", []byte("SECRET-ABSOLUTE"))
		names := []string{own, "missing.log", "", "../outside.log", "sub/../../outside.log", "/etc/absolute-secret", "./" + own}
		for _, name := range names {
			for _, endpos := range []int64{-1, 0, 1, int64(size) - 1, int64(size), int64(size) + 1} {
				for _, length := range []int64{-1, 0, 1, int64(size) - 1, int64(size), int64(size) + 1, 2 * int64(size)} {
					c.Count("read_cases", 1)
					c.Count("evaluations", 1)
					desc := fmt.Sprintf("Read(%q, endpos=%d, length=%d) on a %d-byte log file", name, endpos, length, size)
					var ld *logfile.LogData
					var perr interface{}
					func() {
						defer func() { perr = recover() }()
						ld = fl.Read(name, endpos, length)
					}()
					if perr != nil {
						c.Violation("C17:read:panic", fmt.Sprintf("%s panicked: %v", desc, perr), map[string]interface{}{"name": name, "endpos": endpos, "length": length, "size": size})
						continue
					}
					if ld == nil {
						continue
					}
					outside := strings.Contains(name, "..") || strings.HasPrefix(name, "/")
					if outside {
						c.Violation("C17:read:outside-logs", fmt.Sprintf("%s served %q from a path outside %s", desc, clip(ld.Text), logsDir), map[string]interface{}{"name": name})
						continue
					}
					if name == "missing.log" || name == "" {
						c.Violation("C17:read:phantom", fmt.Sprintf("%s returned data for a file that does not exist", desc), nil)
						continue
					}
					full := content(size)
					if length >= 0 && int64(len(ld.Text)) > length {
						c.Violation("C17:read:too-long", fmt.Sprintf("%s returned %d bytes", desc, len(ld.Text)), nil)
					}
					if ld.Before < 0 || ld.Before+int64(len(ld.Text)) > int64(size) || string(full[ld.Before:ld.Before+int64(len(ld.Text))]) != ld.Text {
						c.Violation("C17:read:content", fmt.Sprintf("%s returned Before=%d and %d bytes that are not the file's content at that offset", desc, ld.Before, len(ld.Text)), nil)
					}
				}
			}
		}
		vos.Use(nil)
		vtime.ClearVirtual()
	}
}

// readPaths: every spelling of a file name built from up to four components out of
// {"..", ".", "", "sub", a file name inside logs, a file name outside logs}, relative and rooted. The
// reference is the path algebra of the standard library: the name denotes
// Clean(<home>/logs + "/" + name); when that is not below <home>/logs nothing may be served, when it
// is, whatever is served is the content of exactly that file.
func readPaths(c *evid.Ctx) {
	vrt.Policy = vrt.PolicySuppressed
	defer func() { vrt.Policy = vrt.PolicyReal }()
	mem := vos.NewMemFS()
	vos.Use(mem)
	defer vos.Use(nil)
	vtime.SetVirtual(time.Date(2024, 3, 10, 12, 0, 0, 0, time.UTC))
	defer vtime.ClearVirtual()
	mem.MkdirAll(logsDir + "/sub")
	fl := newLogger(logger.LOG_LEVEL_WARN)
	files := map[string]string{
		logsDir + "/in.log":      "INSIDE-TOP",
		logsDir + "/sub/in.log":  "INSIDE-SUB",
		logsDir + "/sub/out.log": "INSIDE-SUB-NAMED-LIKE-OUTSIDE",
		home + "/out.log":        "SECRET-BESIDE-LOGS",
		home + "/in.log":         "SECRET-BESIDE-LOGS-SAME-NAME",
		home + "/sub/in.log":     "SECRET-SIBLING-DIRECTORY",
		"/out.log":               "SECRET-AT-THE-ROOT",
		"/in.log":                "SECRET-AT-THE-ROOT-SAME-NAME",
		"/sub/in.log":            "SECRET-ROOT-SUB",
	}
	for f, body := range files {
		mem.MkdirAll(pathpkg.Dir(f))
		mem.WriteFile(f, []byte(body))
	}
	comps := []string{"..", ".", "", "sub", "in.log", "out.log"}
	var names []string
	var gen func(prefix []string, depth int)
	gen = func(prefix []string, depth int) {
		if len(prefix) > 0 {
			names = append(names, strings.Join(prefix, "/"), "/"+strings.Join(prefix, "/"))
		}
		if depth == 0 {
			return
		}
		for _, cmp := range comps {
			gen(append(append([]string{}, prefix...), cmp), depth-1)
		}
	}
	gen(nil, 4)
	seen := map[string]bool{}
	for _, name := range names {
		if name == "" || seen[name] {
			continue
		}
		seen[name] = true
		c.Count("read_path_cases", 1)
		c.Count("evaluations", 1)
		target := pathpkg.Clean(logsDir + "/" + name)
		inside := strings.HasPrefix(target, logsDir+"/")
		var ld *logfile.LogData
		var perr interface{}
		func() {
			defer func() { perr = recover() }()
			ld = fl.Read(name, -1, 1000)
		}()
		if perr != nil {
			c.Violation("C17:read:panic", fmt.Sprintf("Read(%q, -1, 1000) panicked: %v", name, perr), map[string]interface{}{"name": name})
			continue
		}
		if ld == nil {
			continue
		}
		if !inside {
			c.Violation("C17:read:outside-logs", fmt.Sprintf("Read(%q, -1, 1000) served %q: the name denotes %s, which is not below %s", name, clip(ld.Text), target, logsDir), map[string]interface{}{"name": name, "denotes": target})
			continue
		}
		want, ok := files[target]
		if !ok {
			c.Violation("C17:read:phantom", fmt.Sprintf("Read(%q, -1, 1000) returned %q although %s does not exist", name, clip(ld.Text), target), map[string]interface{}{"name": name})
			continue
		}
		if ld.Text != want {
			c.Violation("C17:read:content", fmt.Sprintf("Read(%q, -1, 1000) returned %q, the file %s holds %q", name, clip(ld.Text), target, want), map[string]interface{}{"name": name})
		}
	}
}

func clip(s string) string {
	if len(s) > 24 {
		return s[:24]
	}
	return s
}

// ---- lines and rotation (E1) -----------------------------------------------------------------------------------

type call struct {
	level string // debug info warn error println
	id    string
}

type lscen struct {
	name     string
	level    int
	interval int
	rotation bool
	loggers  [][]call
	cycles   int  // cycle thread: number of VerifCycle calls, 11 s apart
	dayJump  bool // a clock thread carries virtual time across midnight
	// startAt, when set, replaces the default start of virtual time (2024-03-10 12:00 UTC): a start a few
	// seconds before midnight makes the cycle thread's own 11 s steps cross the date line by seconds
	startAt time.Time
}

func (s lscen) String() string {
	var ts []string
	for _, t := range s.loggers {
		var cs []string
		for _, c := range t {
			cs = append(cs, c.level+":"+c.id)
		}
		ts = append(ts, strings.Join(cs, ","))
	}
	return fmt.Sprintf("%s level=%d interval=%ds rotation=%v cycles=%d dayJump=%v start=%s loggers: %s", s.name, s.level, s.interval, s.rotation, s.cycles, s.dayJump, s.startAt.Format("15:04:05"), strings.Join(ts, " || "))
}

var levelNo = map[string]int{"debug": logger.LOG_LEVEL_DEBUG, "info": logger.LOG_LEVEL_INFO, "warn": logger.LOG_LEVEL_WARN, "error": logger.LOG_LEVEL_ERROR, "println": 99}

type issued struct {
	thread, k          int
	msg                string
	id                 string
	level              string
	at                 int64 // virtual ms when the call started
	end                int64 // virtual ms when the call returned (the gate ran somewhere in [at, end])
	s0, s1             int   // scheduler steps at call and return: s1 < other.s0 means "returned before the other was called"
	day                string
	afterCycleInNewDay bool
}

func (s lscen) scenario() dfs.Scenario {
	return func(x *sched.Exec) func() string {
		vtime.Epoch = vtime.DefaultEpoch
		if !s.startAt.IsZero() {
			vtime.Epoch = s.startAt
		}
		mem := vos.NewMemFS()
		vos.Use(mem)
		vrt.Filter = func(string) bool { return false } // the 10 s background loop is replaced by the cycle thread
		mem.MkdirAll(logsDir)
		fl := newLogger(s.level)
		fl.VerifSet(s.interval, 7, s.rotation)
		fl.VerifInitCycle()
		nowMs := func() int64 { return vtime.Epoch.UnixMilli() + x.Now/1e6 }
		dayOf := func(ms int64) string { return time.UnixMilli(ms).UTC().Format("20060102") }
		var calls []*issued
		cycleDay := map[string]bool{} // days for which a cycle has completed
		for ti, cs := range s.loggers {
			ti, cs := ti, cs
			x.Spawn(fmt.Sprintf("L%d", ti), func() {
				for k, cl := range cs {
					x.Yield(sched.Op{Kind: "op:log"})
					msg := fmt.Sprintf("%s t%d-call%d payload", cl.id, ti, k)
					is := &issued{thread: ti, k: k, msg: msg, id: cl.id, level: cl.level, at: nowMs(), s0: x.Steps}
					is.day = dayOf(is.at)
					is.afterCycleInNewDay = cycleDay[is.day]
					calls = append(calls, is)
					switch cl.level {
					case "debug":
						fl.Debug(msg)
					case "info":
						fl.Info(msg)
					case "warn":
						fl.Warn(msg)
					case "error":
						fl.Error(msg)
					case "println":
						fl.Println(cl.id, msg)
					}
					is.end, is.s1 = nowMs(), x.Steps
					if s.interval > 0 {
						vtime.Sleep(4 * time.Second)
					}
				}
			})
		}
		if s.cycles > 0 {
			x.Spawn("cycle", func() {
				for i := 0; i < s.cycles; i++ {
					vtime.Sleep(11 * time.Second)
					x.Yield(sched.Op{Kind: "op:cycle"})
					d := dayOf(nowMs())
					fl.VerifCycle()
					cycleDay[d] = true
				}
			})
		}
		if s.dayJump {
			x.Spawn("clock", func() {
				// from 12:00 to just after the next midnight
				vtime.Sleep(12*time.Hour + time.Second)
			})
		}
		return func() string {
			vos.Use(nil)
			vrt.Filter = nil
			vtime.Epoch = vtime.DefaultEpoch
			if x.HitStepCap {
				return "livelock: step cap hit"
			}
			if x.Deadlock {
				return "deadlock: " + strings.Join(x.Blocked, ",")
			}
			for _, t := range x.Threads() {
				if t.Panic != nil {
					return fmt.Sprintf("panic: thread %s died: %v", t.Name, t.Panic)
				}
			}
			// files in date order
			names := mem.List(logsDir)
			sort.Strings(names)
			type line struct{ file, text string }
			var lines []line
			for _, n := range names {
				if s.rotation {
					if !strings.HasPrefix(n, "whatap-boot-") || !strings.HasSuffix(n, ".log") || len(n) != len("whatap-boot-20240310.log") {
						return fmt.Sprintf("file-name: unexpected log file %q (expected <id>-<oname>-<yyyymmdd>.log)", n)
					}
				} else if n != "whatap-boot.log" && !(strings.HasPrefix(n, "whatap-boot-") && len(n) == len("whatap-boot-20240310.log")) {
					// (the logger starts with rotation on - the constructor default - and is switched
					// off by configuration, so its first file is a dated one)
					return fmt.Sprintf("file-name: unexpected log file %q with rotation off", n)
				}
				data, _ := mem.ReadFile(logsDir + "/" + n)
				if len(data) > 0 && data[len(data)-1] != '\n' {
					return fmt.Sprintf("torn-line: %s does not end with a newline", n)
				}
				for _, l := range strings.Split(string(data), "\n") {
					if strings.Contains(l, "payload") {
						lines = append(lines, line{n, l})
					}
				}
			}
			// which calls must appear? The interval gate of a call ran at some instant of [at, end] (a
			// preempted call may have started long before it looked at the clock), so the oracle
			// only demands what holds for every such instant:
			//  - a line that passed the level gate MUST be written if no other call with the same id
			//    can have set the "last logged" time less than an interval before it: for every other
			//    call o with that id, at >= o.end + interval (or o lies entirely after this call);
			//  - a line MUST NOT be written if a written line with the same id certainly set the time
			//    less than an interval before it: o written, o returned before this call was made, and end < o.at + interval.
			count := map[string]int{}
			for _, l := range lines {
				for _, is := range calls {
					if strings.Contains(l.text, is.msg) {
						count[is.msg]++
					}
				}
			}
			keyOf := func(is *issued) string {
				if is.level == "println" {
					return is.id
				}
				k := is.msg
				if len(k) > 10 {
					k = k[:10]
				}
				return k
			}
			iv := int64(s.interval) * 1000
			for _, is := range calls {
				if levelNo[is.level] < s.level {
					if count[is.msg] > 0 {
						return fmt.Sprintf("level-gate: a %s line was written although the level is %d", is.level, s.level)
					}
					continue
				}
				if count[is.msg] > 1 {
					return fmt.Sprintf("duplicate-line: %q appears %d times", is.msg, count[is.msg])
				}
				limited := s.interval > 0 && is.level != "debug"
				mustWrite, mustNot := true, ""
				if limited {
					for _, o := range calls {
						if o == is || keyOf(o) != keyOf(is) || levelNo[o.level] < s.level {
							continue
						}
						if o.s0 > is.s1 {
							continue // called after this call returned: cannot have influenced it
						}
						if is.at < o.end+iv {
							mustWrite = false
						}
						if count[o.msg] > 0 && o.s1 < is.s0 && is.end < o.at+iv {
							mustNot = o.msg
						}
					}
				}
				if count[is.msg] == 0 && mustWrite {
					return fmt.Sprintf("lost-line: %q (level %s, thread %d) passed the level gate, no call with the same id lies within the interval before it, but it is in no log file", is.msg, is.level, is.thread)
				}
				if count[is.msg] > 0 && mustNot != "" {
					return fmt.Sprintf("rate-limit: %q was written although the written line %q with the same id finished less than %d s before it started", is.msg, mustNot, s.interval)
				}
			}
			// per-thread order, and new-day lines after a completed cycle go to the new day's file
			pos := map[string]int{}
			fileOf := map[string]string{}
			for i, l := range lines {
				for _, is := range calls {
					if strings.Contains(l.text, is.msg) {
						pos[is.msg] = i
						fileOf[is.msg] = l.file
					}
				}
			}
			byThread := map[int][]*issued{}
			for _, is := range calls {
				if _, ok := pos[is.msg]; ok {
					byThread[is.thread] = append(byThread[is.thread], is)
				}
			}
			for t, cs := range byThread {
				sort.Slice(cs, func(i, j int) bool { return cs[i].k < cs[j].k })
				for i := 1; i < len(cs); i++ {
					if pos[cs[i].msg] < pos[cs[i-1].msg] {
						return fmt.Sprintf("order: thread %d's line %q precedes its earlier line %q in the concatenated log", t, cs[i].msg, cs[i-1].msg)
					}
				}
			}
			if s.rotation {
				for _, is := range calls {
					// a line whose call started on a day on which the cycle had already run must not land
					// in an older day's file (it may land in a later one if midnight passes before the write)
					if f, ok := fileOf[is.msg]; ok && is.afterCycleInNewDay && len(f) == len("whatap-boot-20240310.log") && f[len("whatap-boot-"):len("whatap-boot-")+8] < is.day {
						return fmt.Sprintf("rotation: %q was logged on %s after the cycle had run on that day, but went to the older file %s", is.msg, is.day, f)
					}
				}
			}
			return ""
		}
	}
}

func lscens(thorough bool) []lscen {
	w := func(id string) call { return call{"warn", id} }
	var out []lscen
	out = append(out,
		lscen{name: "levels", level: logger.LOG_LEVEL_WARN, rotation: true, loggers: [][]call{{{"debug", "WA001"}, {"info", "WA002"}, {"warn", "WA003"}, {"error", "WA004"}, {"println", "WA005"}}}},
		lscen{name: "levels-debug", level: logger.LOG_LEVEL_DEBUG, rotation: true, loggers: [][]call{{{"debug", "WA001"}, {"info", "WA002"}}, {{"error", "WA004"}}}},
		lscen{name: "two-loggers", level: logger.LOG_LEVEL_WARN, rotation: true, loggers: [][]call{{w("WA101"), w("WA102")}, {w("WA201"), w("WA202")}}},
		lscen{name: "cycle-same-day", level: logger.LOG_LEVEL_WARN, rotation: true, cycles: 1, loggers: [][]call{{w("WA101"), w("WA102")}, {w("WA201")}}},
		lscen{name: "day-change", level: logger.LOG_LEVEL_WARN, rotation: true, cycles: 1, dayJump: true, loggers: [][]call{{w("WA101"), w("WA102")}, {w("WA201")}}},
		lscen{name: "day-change-2-cycles", level: logger.LOG_LEVEL_WARN, rotation: true, cycles: 2, dayJump: true, loggers: [][]call{{w("WA101"), w("WA102"), w("WA103")}}},
		lscen{name: "no-rotation-day-change", level: logger.LOG_LEVEL_WARN, rotation: false, cycles: 1, dayJump: true, loggers: [][]call{{w("WA101"), w("WA102")}}},
		lscen{name: "midnight-crossed-by-seconds", level: logger.LOG_LEVEL_WARN, rotation: true, cycles: 2, startAt: time.Date(2024, 3, 10, 23, 59, 50, 0, time.UTC), loggers: [][]call{{w("WA101"), w("WA102")}, {w("WA201")}}},
		lscen{name: "interval-same-id", level: logger.LOG_LEVEL_WARN, interval: 10, rotation: true, loggers: [][]call{{{"println", "WA300"}, {"println", "WA300"}, {"println", "WA300"}, {"println", "WA300"}}}},
		lscen{name: "interval-two-threads", level: logger.LOG_LEVEL_WARN, interval: 10, rotation: true, loggers: [][]call{{{"println", "WA300"}, {"println", "WA301"}}, {{"println", "WA300"}, {"println", "WA300"}}}},
	)
	return out
}

func Run(c *evid.Ctx) {
	if w := shard.Worker(); w != nil {
		pb := 2
		if c.Thorough() {
			pb = 3
		}
		for _, s := range lscens(c.Thorough()) {
			st, viols, err := dfs.Explore(s.scenario(), dfs.Config{Preemptions: pb, Faults: 0, StepCap: 5000, MaxExec: 400000, ShardI: w.I, ShardN: w.N}, false)
			if err != nil {
				c.Broken(err.Error() + " in " + s.String())
				continue
			}
			if w.I == 0 {
				c.Count("line_scenarios", 1)
			}
			c.Count("states", int64(st.Executions))
			c.Count("transitions", int64(st.Steps))
			if st.Capped {
				c.NotExhaustive("execution cap hit in " + s.name)
			}
			if w.I == 1 {
				c.Sample(map[string]interface{}{"scenario": s.String(), "executions_in_this_shard_of_16": st.Executions, "preemption_bound": pb})
			}
			for _, v := range viols {
				kind := strings.SplitN(v.Verdict, ":", 2)[0]
				c.Violation("C17:lines:"+kind, fmt.Sprintf("%s — %s — choices %v", s.String(), v.Verdict, v.Choices), map[string]interface{}{"engine": "E1", "scenario": s.String(), "choices": v.Choices, "trace": v.Trace})
			}
		}
		return
	}
	retention(c)
	readWindow(c)
	readPaths(c)
	intervalHistories(c)
	suppression(c)
	reopen(c)
	shard.Spawn(c, 16, true)
	// the premise of the enumeration above (atomic blocks = data-race-free code) is checked in the
	// race mode of the explorer (race.go)
	shard.SpawnRace(c, 4)
	c.Cov["traces_validated_against_impl"] = c.Counter("states")
	c.Count("distinct_nontrivial", c.Counter("evaluations"))
	c.Cov["rule"] = "lines/rotation: states = complete schedules of 1-2 logging goroutines, the rotation cycle and a clock thread that carries virtual time across midnight, on an in-memory file system where every file operation is a scheduling point; each execution's files are read back: every line that passed the level and interval gates exactly once, whole, per-thread order, file names, new-day lines after a completed cycle in the new file; retention: every 1- and 2-file directory, the full 13-name directory and its 13 one-less variants x 3 clocks x 3 keep-days x rotation on/off; read window: 4 sizes x 6 end positions x 7 lengths x 7 names"
	c.Assume("the file system is an in-memory model (append-only writes, a write to a closed file fails); the 10 s background loop is replaced by a cycle thread calling the same cycle function")
	c.Assume("keep-days <= 0 disables retention (not judged)")
}
