// Package c08 decides C08: profile steps, transaction records and service records round-trip as
// self-delimiting streams (E3: k-deviation instances per step type and version; every stream up to a
// length bound; all combinations of the optional groups of a transaction record).
package c08

import (
	"bytes"
	"fmt"
	"path/filepath"
	"reflect"
	"sort"
	"strings"
	"sync/atomic"

	"verif/engine/enum"
	"verif/engine/evid"
	"verif/props/packs"

	gio "github.com/whatap/golib/io"
	"github.com/whatap/golib/lang/pack"
	"github.com/whatap/golib/lang/service"
	"github.com/whatap/golib/lang/step"
	"github.com/whatap/golib/lang/value"
)

type stepType struct {
	name string
	mk   func() step.Step
}

var stepTypes = []stepType{
	{"MethodStepX", func() step.Step { return step.NewMethodStepX() }},
	{"SqlStepX", func() step.Step { return step.NewSqlStepX() }},
	{"ResultSetStep", func() step.Step { return step.NewResultSetStep() }},
	{"SocketStep", func() step.Step { return step.NewSocketStep() }},
	{"HttpcStepX(v0)", func() step.Step { return step.NewHttpcStepXVersion(0) }},
	{"HttpcStepX(v1)", func() step.Step { return step.NewHttpcStepXVersion(1) }},
	{"HttpcStepX(v2)", func() step.Step { return step.NewHttpcStepX() }},
	{"HttpcStepX(v3)", func() step.Step { return step.NewHttpcStepXVersion(3) }},
	{"ActiveStackStep", func() step.Step { return step.NewActiveStackStep() }},
	{"MessageStep", func() step.Step { return step.NewMessageStep() }},
	{"SecureMsgStep", func() step.Step { return step.NewSecureMsgStep() }},
	{"DBCStep", func() step.Step { return step.NewDBCStep() }},
	{"MessageStepX", func() step.Step { return step.NewMessageStepX() }},
}

var hints = func() map[string][]func(int) interface{} {
	h := packs.Hints()
	// the version of a HttpcStepX is fixed by the type variant
	h["HttpcStepX.Version"] = []func(int) interface{}{}
	// the abstract step's Drop/Opt are processing flags, not wire fields: left alone
	return h
}()

func build(mk func() interface{}, base int, dev map[string]int) (interface{}, []enum.Slot) {
	obj := mk()
	f := &enum.Filler{Hints: hints}
	f.Fill(obj, func(slot string, n int) int {
		if c, ok := dev[slot]; ok {
			return c
		}
		if base == 1 && n > 1 {
			return 1
		}
		return 0
	})
	return obj, append([]enum.Slot{}, f.Slots...)
}

// variants: both bases and every deviation of at most k slots.
func variants(mk func() interface{}, k int, f func(desc string, obj interface{})) {
	for base := 0; base <= 1; base++ {
		o, slots := build(mk, base, nil)
		f(fmt.Sprintf("base%d", base), o)
		for i, s := range slots {
			for alt := 0; alt < s.N; alt++ {
				if alt == base {
					continue
				}
				o1, _ := build(mk, base, map[string]int{s.Path: alt})
				f(fmt.Sprintf("base%d %s:=alt%d", base, s.Path, alt), o1)
				if k < 2 {
					continue
				}
				for _, s2 := range slots[i+1:] {
					for alt2 := 0; alt2 < s2.N; alt2++ {
						if alt2 == base {
							continue
						}
						o2, _ := build(mk, base, map[string]int{s.Path: alt, s2.Path: alt2})
						f(fmt.Sprintf("base%d %s:=alt%d %s:=alt%d", base, s.Path, alt, s2.Path, alt2), o2)
					}
				}
			}
		}
	}
}

// distinguishing probes every single-slot deviation of both bases for the distinguishing-value
// baseline (packs.Distinct).
func distinguishing(d *packs.Distinct, typ string, mk func() interface{}, enc func(o interface{}) []byte) {
	for base := 0; base <= 1; base++ {
		base := base
		_, slots := build(mk, base, nil)
		for _, s := range slots {
			for alt := 0; alt < s.N; alt++ {
				if alt == base {
					continue
				}
				dev := map[string]int{s.Path: alt}
				d.Probe(typ, fmt.Sprintf("%d|%s|%d", base, s.Path, alt),
					func() []byte { o, _ := build(mk, base, nil); return enc(o) },
					func() []byte { o, _ := build(mk, base, dev); return enc(o) })
			}
		}
	}
}

func safeEnc(f func() []byte) (b []byte) {
	defer func() {
		if r := recover(); r != nil {
			b = nil
		}
	}()
	return f()
}

func encStep(s step.Step) (b []byte, err interface{}) {
	defer func() {
		if r := recover(); r != nil {
			err = r
		}
	}()
	out := gio.NewDataOutputX()
	step.WriteStep(out, s)
	return append([]byte{}, out.ToByteArray()...), nil
}

// decStep reads one tagged step; creatable says whether the factory knows the tag.
func decStep(in *gio.DataInputX, proto step.Step) (s step.Step, err interface{}) {
	defer func() {
		if r := recover(); r != nil {
			err = r
		}
	}()
	if step.CreateStep(proto.GetStepType()) != nil {
		return step.ReadStep(in), nil
	}
	in.ReadByte()
	n := reflect.New(reflect.TypeOf(proto).Elem()).Interface().(step.Step)
	n.Read(in)
	return n, nil
}

type ck struct {
	c       *evid.Ctx
	evals   int64
	nontriv int64
}

func (k *ck) viol(key, msg string) {
	k.c.Violation("C08:"+key, msg, map[string]interface{}{"engine": "E3", "detail": msg})
}

func strip(f string) string {
	if i := strings.Index(f, "["); i >= 0 {
		return f[:i]
	}
	return f
}

func (k *ck) oneStep(tn, desc string, s step.Step) []byte {
	atomic.AddInt64(&k.evals, 1)
	b, err := encStep(s)
	if err != nil {
		if strings.HasPrefix(desc, "base") && !strings.Contains(desc, ":=") {
			k.c.Info("%s %s cannot be written: %v", tn, desc, err)
		} else {
			k.viol(tn+":write-panic", fmt.Sprintf("%s %s: Write panicked: %v", tn, desc, err))
		}
		return nil
	}
	in := gio.NewDataInputX(b)
	d, derr := decStep(in, s)
	if derr != nil {
		k.viol(tn+":decode-panic", fmt.Sprintf("%s %s: decoding %d bytes panicked: %v", tn, desc, len(b), derr))
		return b
	}
	if d == nil || reflect.TypeOf(d) != reflect.TypeOf(s) {
		k.viol(tn+":type", fmt.Sprintf("%s %s: decoded to %T", tn, desc, d))
		return b
	}
	field := packs.Diff(s, d)
	if in.Available() != 0 {
		k.viol(tn+":unconsumed", fmt.Sprintf("%s %s: %d of %d bytes left unread (first differing field %s)", tn, desc, in.Available(), len(b), field))
		return b
	}
	b2, err2 := encStep(d)
	if err2 != nil || !bytes.Equal(b, b2) {
		k.viol(tn+":reencode:"+strip(field), fmt.Sprintf("%s %s: the decoded step re-encodes differently (%v; first differing field %s)", tn, desc, err2, field))
	}
	return b
}

func (k *ck) streams(maxLen int) {
	// two instances per type: as constructed and all-typical
	type inst struct {
		name string
		s    step.Step
		b    []byte
	}
	var alpha []inst
	for _, st := range stepTypes {
		if step.CreateStep(st.mk().GetStepType()) == nil {
			continue // streams are read with ReadStep: factory-known types only
		}
		for base := 0; base <= 1; base++ {
			o, _ := build(func() interface{} { return st.mk() }, base, nil)
			b, err := encStep(o.(step.Step))
			if err != nil {
				continue
			}
			alpha = append(alpha, inst{fmt.Sprintf("%s/base%d", st.name, base), o.(step.Step), b})
		}
	}
	n := len(alpha)
	idx := make([]int, maxLen)
	var rec func(l, pos int)
	rec = func(l, pos int) {
		if pos == l {
			atomic.AddInt64(&k.evals, 1)
			atomic.AddInt64(&k.nontriv, 1)
			steps := make([]step.Step, l)
			var names []string
			for i := 0; i < l; i++ {
				steps[i] = alpha[idx[i]].s
				names = append(names, alpha[idx[i]].name)
			}
			func() {
				defer func() {
					if r := recover(); r != nil {
						k.viol("stream:panic", fmt.Sprintf("stream %v: %v", names, r))
					}
				}()
				all := step.ToBytesStep(steps)
				in := gio.NewDataInputX(all)
				off := 0
				for i := 0; i < l; i++ {
					d := step.ReadStep(in)
					off += len(alpha[idx[i]].b)
					if int(in.Available()) != len(all)-off {
						k.viol("stream:boundary", fmt.Sprintf("stream %v: step %d consumed up to offset %d, its own bytes end at %d", names, i, len(all)-int(in.Available()), off))
						return
					}
					b2, _ := encStep(d)
					if !bytes.Equal(b2, alpha[idx[i]].b) {
						k.viol("stream:content", fmt.Sprintf("stream %v: step %d decodes to something else", names, i))
						return
					}
				}
				if in.Available() != 0 {
					k.viol("stream:trailing", fmt.Sprintf("stream %v: %d bytes left", names, in.Available()))
				}
			}()
			return
		}
		for i := 0; i < n; i++ {
			idx[pos] = i
			rec(l, pos+1)
		}
	}
	for l := 1; l <= maxLen; l++ {
		rec(l, 0)
	}
	k.c.Cov["stream_alphabet"] = n
}

// ---- transaction records ------------------------------------------------------------------------------

// txRecordOf builds a transaction record with the optional groups of mask present.
func txRecordOf(mask int) *service.TxRecord {
	t := service.NewTxRecord()
	t.Txid = 99
	if mask&1 != 0 {
		t.Mtid, t.Mdepth, t.Mcaller = 77, 2, 66
	}
	if mask&2 != 0 {
		t.McallerPcode, t.McallerOkind, t.McallerOid, t.McallerSpec, t.McallerUrl, t.MthisSpec = 5, 4, 3, 2, 1, 9
	}
	if mask&4 != 0 {
		t.Fields = value.NewMapValue()
		t.Fields.PutString("f1", "v")
		t.Fields.Put("f0", nil) // a key stored without a value travels as the empty text
		t.Fields.PutLong("f2", 7)
	}
	if mask&8 != 0 {
		t.Error = 1234 // with ErrorLevel 0: the decoder defaults the level to WARNING
	}
	if mask&16 != 0 {
		t.Uuid, t.OriginUrl = "uuid-1", "/origin"
	}
	return t
}

func (k *ck) txRecords(kdev int) {
	// the 2^5 combinations of the optional groups
	for mask := 0; mask < 32; mask++ {
		mask := mask
		mk := func() interface{} { return txRecordOf(mask) }
		lim := 0
		if mask == 0 || mask == 31 {
			lim = kdev
		}
		emit := func(desc string, o interface{}) {
			t := o.(*service.TxRecord)
			atomic.AddInt64(&k.evals, 1)
			atomic.AddInt64(&k.nontriv, 1)
			func() {
				defer func() {
					if r := recover(); r != nil {
						k.viol("TxRecord:panic", fmt.Sprintf("TxRecord groups=%05b %s: %v", mask, desc, r))
					}
				}()
				b := append([]byte{}, t.ToBytes()...)
				in := gio.NewDataInputX(b)
				d := service.NewTxRecord().Read(in)
				if in.Available() != 0 {
					k.viol("TxRecord:unconsumed", fmt.Sprintf("TxRecord groups=%05b %s: %d bytes left", mask, desc, in.Available()))
					return
				}
				// expected: the original with the documented defaulting of the error level
				want := *t
				if want.ErrorLevel == 0 && want.Error != 0 {
					want.ErrorLevel = service.WARNING
				}
				if want.Fields != nil && want.Fields.Size() == 0 {
					want.Fields = nil
				}
				if want.Fields != nil {
					// documented in the writer: a key without a value is sent as the empty text
					nf := value.NewMapValue()
					for ks := want.Fields.Keys(); ks.HasMoreElements(); {
						k := ks.NextString()
						if v := want.Fields.Get(k); v == nil {
							nf.PutString(k, "")
						} else {
							nf.Put(k, v)
						}
					}
					want.Fields = nf
				}
				if f := packs.Diff(&want, d); f != "" {
					// wire-equivalence: narrowing fields re-encode identically. The records "as built"
					// hold small values that fit every width: there every field must come back as written
					wb := append([]byte{}, (&want).ToBytes()...)
					if desc == "as built" || !bytes.Equal(wb, d.ToBytes()) {
						k.viol("TxRecord:field:"+strip(f), fmt.Sprintf("TxRecord groups=%05b %s: field %s is not restored", mask, desc, f))
					}
				}
				if d2 := service.NewTxRecord().ToObject(b); packs.Diff(d, d2) != "" {
					k.viol("TxRecord:ToObject", "ToObject and Read disagree")
				}
			}()
		}
		if lim == 0 {
			emit("as built", mk())
		} else {
			variants(mk, lim, emit)
		}
	}
}

func (k *ck) services(kdev int) {
	for _, mk := range []func() service.Service{func() service.Service { return service.NewWasService() }, func() service.Service { return service.NewAppService() }, func() service.Service { return service.NewWasService2() }} {
		mk := mk
		tn := strings.TrimPrefix(reflect.TypeOf(mk()).String(), "*service.")
		variants(func() interface{} { return mk() }, kdev, func(desc string, o interface{}) {
			atomic.AddInt64(&k.evals, 1)
			atomic.AddInt64(&k.nontriv, 1)
			func() {
				defer func() {
					if r := recover(); r != nil {
						k.viol(tn+":panic", fmt.Sprintf("%s %s: %v", tn, desc, r))
					}
				}()
				out := gio.NewDataOutputX()
				service.ToBytes(o.(service.Service), out)
				b := append([]byte{}, out.ToByteArray()...)
				in := gio.NewDataInputX(b)
				d := service.ToObject(in)
				if d == nil || reflect.TypeOf(d) != reflect.TypeOf(o) {
					k.viol(tn+":type", fmt.Sprintf("%s %s decodes to %T", tn, desc, d))
					return
				}
				if in.Available() != 0 {
					k.viol(tn+":unconsumed", fmt.Sprintf("%s %s: %d bytes left", tn, desc, in.Available()))
					return
				}
				out2 := gio.NewDataOutputX()
				service.ToBytes(d, out2)
				if !bytes.Equal(out2.ToByteArray(), b) {
					k.viol(tn+":reencode:"+strip(packs.Diff(o, d)), fmt.Sprintf("%s %s: re-encoding differs (field %s)", tn, desc, packs.Diff(o, d)))
				}
			}()
		})
	}
}

// stepBlobs: packs carrying step blobs round-trip and their blobs decode back to the same steps.
func (k *ck) stepBlobs() {
	var steps []step.Step
	for _, st := range stepTypes {
		if step.CreateStep(st.mk().GetStepType()) == nil {
			continue
		}
		o, _ := build(func() interface{} { return st.mk() }, 1, nil)
		steps = append(steps, o.(step.Step))
	}
	blob := step.ToBytesStep(steps)
	check := func(name string, got []byte) {
		atomic.AddInt64(&k.evals, 1)
		if !bytes.Equal(got, blob) {
			k.viol(name+":blob", name+": the step blob is altered by the pack round trip")
			return
		}
		in := gio.NewDataInputX(got)
		for i := range steps {
			d := step.ReadStep(in)
			b1, _ := encStep(steps[i])
			b2, _ := encStep(d)
			if !bytes.Equal(b1, b2) {
				k.viol(name+":steps", fmt.Sprintf("%s: step %d of the carried profile decodes differently", name, i))
				return
			}
		}
	}
	func() {
		defer func() {
			if r := recover(); r != nil {
				k.viol("ProfilePack:steps:panic", fmt.Sprint(r))
			}
		}()
		p := pack.NewProfilePack()
		p.Transaction = service.NewTxRecord()
		p.SetProfile(steps)
		d := pack.ToPack(pack.ToBytesPack(p)).(*pack.ProfilePack)
		check("ProfilePack", d.Steps)
	}()
	func() {
		defer func() {
			if r := recover(); r != nil {
				k.viol("ProfileStepSplitPack:steps:panic", fmt.Sprint(r))
			}
		}()
		p := pack.NewProfileStepSplitPack()
		p.Txid, p.Inx, p.Steps = 5, 2, blob
		out := gio.NewDataOutputX()
		p.Write(out)
		d := pack.NewProfileStepSplitPack()
		d.Read(gio.NewDataInputX(out.ToByteArray()))
		check("ProfileStepSplitPack", d.Steps)
	}()
	func() {
		defer func() {
			if r := recover(); r != nil {
				k.viol("ErrorSnapPack1:steps:panic", fmt.Sprint(r))
			}
		}()
		p := pack.NewErrorSnapPack1()
		p.Seq, p.Profile = 8, blob
		d := pack.ToPack(pack.ToBytesPack(p)).(*pack.ErrorSnapPack1)
		check("ErrorSnapPack1", d.Profile)
	}()
}

// setProfileHistories: the packs that take a step list (SetProfile, SetStack) hold exactly the list
// handed over last, whatever they held before: a fresh pack, a pack whose blob was assigned, a pack
// that was read from the wire, and a pack that was filled before (a sender refilling one pack per
// chunk), over lists of 0, 1, 2 and all steps.
func (k *ck) setProfileHistories() {
	var all []step.Step
	for _, st := range stepTypes {
		if step.CreateStep(st.mk().GetStepType()) == nil {
			continue
		}
		o, _ := build(func() interface{} { return st.mk() }, 1, nil)
		all = append(all, o.(step.Step))
	}
	lists := [][]step.Step{nil, all[:1], all[1:3], all}
	old := step.ToBytesStep(all[2:4])
	type target struct {
		name  string
		fresh func() interface{}
		set   func(p interface{}, l []step.Step)
		blob  func(p interface{}) []byte
		put   func(p interface{}, b []byte)
		rt    func(p interface{}) interface{}
	}
	targets := []target{
		{"ProfilePack", func() interface{} { p := pack.NewProfilePack(); p.Transaction = service.NewTxRecord(); return p },
			func(p interface{}, l []step.Step) { p.(*pack.ProfilePack).SetProfile(l) },
			func(p interface{}) []byte { return p.(*pack.ProfilePack).Steps },
			func(p interface{}, b []byte) { p.(*pack.ProfilePack).Steps = b },
			func(p interface{}) interface{} { return pack.ToPack(pack.ToBytesPack(p.(*pack.ProfilePack))) }},
		{"ProfileStepSplitPack", func() interface{} { return pack.NewProfileStepSplitPack() },
			func(p interface{}, l []step.Step) { p.(*pack.ProfileStepSplitPack).SetProfile(l) },
			func(p interface{}) []byte { return p.(*pack.ProfileStepSplitPack).Steps },
			func(p interface{}, b []byte) { p.(*pack.ProfileStepSplitPack).Steps = b },
			func(p interface{}) interface{} {
				out := gio.NewDataOutputX()
				p.(*pack.ProfileStepSplitPack).Write(out)
				d := pack.NewProfileStepSplitPack()
				d.Read(gio.NewDataInputX(out.ToByteArray()))
				return d
			}},
		{"ErrorSnapPack1", func() interface{} { return pack.NewErrorSnapPack1() },
			func(p interface{}, l []step.Step) { p.(*pack.ErrorSnapPack1).SetProfile(l) },
			func(p interface{}) []byte { return p.(*pack.ErrorSnapPack1).Profile },
			func(p interface{}, b []byte) { p.(*pack.ErrorSnapPack1).Profile = b },
			func(p interface{}) interface{} { return pack.ToPack(pack.ToBytesPack(p.(*pack.ErrorSnapPack1))) }},
	}
	for _, t := range targets {
		starts := []struct {
			name string
			mk   func() interface{}
		}{
			{"fresh", t.fresh},
			{"blob assigned", func() interface{} { p := t.fresh(); t.put(p, append([]byte{}, old...)); return p }},
			{"read from the wire", func() interface{} { p := t.fresh(); t.put(p, append([]byte{}, old...)); return t.rt(p) }},
		}
		for _, st := range starts {
			for i1, l1 := range lists {
				for i2, l2 := range append([][]step.Step{nil}, lists...) {
					atomic.AddInt64(&k.evals, 1)
					atomic.AddInt64(&k.nontriv, 1)
					desc := fmt.Sprintf("%s (%s) SetProfile(list %d)", t.name, st.name, i1)
					func() {
						defer func() {
							if r := recover(); r != nil {
								k.viol(t.name+":SetProfile:panic", fmt.Sprintf("%s: %v", desc, r))
							}
						}()
						p := st.mk()
						t.set(p, l1)
						want := step.ToBytesStep(l1)
						if i2 > 0 {
							desc += fmt.Sprintf(" SetProfile(list %d)", i2-1)
							t.set(p, l2)
							want = step.ToBytesStep(l2)
						}
						if !bytes.Equal(t.blob(p), want) {
							k.viol(t.name+":SetProfile:content", fmt.Sprintf("%s: the pack holds %d bytes of steps, the list handed over last encodes to %d bytes", desc, len(t.blob(p)), len(want)))
							return
						}
						if d := t.rt(p); !bytes.Equal(t.blob(d), want) {
							k.viol(t.name+":SetProfile:round-trip", fmt.Sprintf("%s: after the wire round trip the pack holds %d bytes of steps, expected %d", desc, len(t.blob(d)), len(want)))
						}
					}()
				}
			}
		}
	}
}

func Run(c *evid.Ctx) {
	k := &ck{c: c}
	kdev, sl := 1, 3
	if c.Thorough() {
		kdev, sl = 2, 4
	}
	// factory probe: which tags are creatable, and does every step type with a tag decode
	var creatable []int
	for t := 0; t < 256; t++ {
		if s := step.CreateStep(byte(t)); s != nil {
			creatable = append(creatable, t)
			if s.GetStepType() != byte(t) {
				k.viol("CreateStep:tag", fmt.Sprintf("CreateStep(%d) returns a step of type %d", t, s.GetStepType()))
			}
		}
	}
	sort.Ints(creatable)
	c.Cov["creatable_step_tags"] = creatable
	for _, st := range stepTypes {
		st := st
		tn := st.name
		if step.CreateStep(st.mk().GetStepType()) == nil {
			k.viol(tn+":not-creatable", fmt.Sprintf("%s is written by WriteStep with tag %d but CreateStep does not know the tag: ReadStep dereferences nil on a stream containing it", tn, st.mk().GetStepType()))
		}
		variants(func() interface{} { return st.mk() }, kdev, func(desc string, o interface{}) {
			if strings.Contains(desc, ":=") {
				atomic.AddInt64(&k.nontriv, 1)
			}
			k.oneStep(tn, desc, o.(step.Step))
		})
	}
	k.streams(sl)
	k.txRecords(kdev)
	k.services(kdev)
	k.stepBlobs()
	k.setProfileHistories()
	// distinguishing-value baseline: a writer that stops carrying a value is invisible to the round trip
	dist := packs.NewDistinct(filepath.Join(evid.Root, "harness", "props", "c08", "distinguishing.json"))
	for _, st := range stepTypes {
		st := st
		distinguishing(dist, st.name, func() interface{} { return st.mk() }, func(o interface{}) []byte {
			b, err := encStep(o.(step.Step))
			if err != nil {
				return nil
			}
			return b
		})
	}
	for _, mask := range []int{0, 1, 2, 3, 31} {
		mask := mask
		distinguishing(dist, fmt.Sprintf("TxRecord(groups=%05b)", mask), func() interface{} { return txRecordOf(mask) }, func(o interface{}) []byte {
			return safeEnc(func() []byte { return append([]byte{}, o.(*service.TxRecord).ToBytes()...) })
		})
	}
	for _, mk := range []func() service.Service{func() service.Service { return service.NewWasService() }, func() service.Service { return service.NewAppService() }, func() service.Service { return service.NewWasService2() }} {
		mk := mk
		tn := strings.TrimPrefix(reflect.TypeOf(mk()).String(), "*service.")
		distinguishing(dist, tn, func() interface{} { return mk() }, func(o interface{}) []byte {
			return safeEnc(func() []byte {
				out := gio.NewDataOutputX()
				service.ToBytes(o.(service.Service), out)
				return append([]byte{}, out.ToByteArray()...)
			})
		})
	}
	dist.Finish(c, "C08")
	// interference between two uses of the step codec (typical instance of a type vs the typical
	// instance of the next type)
	for i, st := range stepTypes {
		a, _ := build(func() interface{} { return st.mk() }, 1, nil)
		nx := stepTypes[(i+1)%len(stepTypes)]
		b, _ := build(func() interface{} { return nx.mk() }, 1, nil)
		atomic.AddInt64(&k.evals, 1)
		packs.Interference(c, "C08", st.name, a, b,
			func(o interface{}) []byte {
				bs, err := encStep(o.(step.Step))
				if err != nil {
					return nil
				}
				return bs
			},
			func(bs []byte) interface{} {
				d, err := decStep(gio.NewDataInputX(bs), a.(step.Step))
				if err != nil {
					return nil
				}
				return d
			})
	}
	c.Count("evaluations", k.evals)
	c.Count("distinct_nontrivial", k.nontriv)
	c.Cov["step_type_variants"] = len(stepTypes)
	c.Cov["rule"] = "one evaluation = one step / record / service instance (at most k reflected slots deviating from two bases) encoded with its tag and decoded (same type, consumed exactly, byte-identical re-encode), or one stream of up to the stated number of step instances decoded step by step with offset bookkeeping; non-trivial = a deviating instance or a stream"
	c.Sample("HttpcStepX(v2) base1 Driver:=alt3")
	c.Sample("stream [SqlStepX/base1 MessageStep/base0 HttpcStepX(v1)/base1]")
	c.Sample("TxRecord groups=01101 as built")
	c.Assume("a transaction record decodes with error level WARNING when an error id is present and the level was 0 (documented defaulting, part of the expected result)")
}
