// Package packs is the reflective driver for lang/pack shared by C03 (round trip), C04 (corpus for
// truncation / overwrite) and C05 (field assignments for wire conformance): registry of pack types,
// hints for container-typed fields, k-deviation enumeration of field assignments, and the round-trip
// oracle.
package packs

import (
	"bytes"
	"fmt"
	"os"
	"reflect"
	"sort"
	"strings"

	"verif/engine/enum"

	gio "github.com/whatap/golib/io"
	"github.com/whatap/golib/lang"
	"github.com/whatap/golib/lang/pack"
	"github.com/whatap/golib/lang/service"
	"github.com/whatap/golib/lang/value"
	"github.com/whatap/golib/util/hmap"
	"github.com/whatap/golib/util/list"
)

// Type describes one pack (or record) type.
type Type struct {
	Name       string
	New        func() interface{}
	Registered bool // creatable through the pack factory
	// PostFill repairs cross-field invariants the writer relies on (e.g. OS <-> Cpu implementation).
	PostFill func(obj interface{})
}

type packIface interface {
	GetPackType() int16
	Write(out *gio.DataOutputX)
	Read(in *gio.DataInputX)
}

func init() {
	os.Unsetenv("WHATAP.starttime")
}

// Registry lists the pack types with a Write/Read pair. The factory-registered subset is
// cross-checked at run time by probing all 65536 type codes (see Discover).
var Registry = []Type{
	{Name: "ParamPack", New: func() interface{} { return pack.NewParamPack() }},
	{Name: "CounterPack1", New: func() interface{} { return pack.NewCounterPack1() }},
	{Name: "ProfilePack", New: func() interface{} { return pack.NewProfilePack() }},
	{Name: "ActiveStackPack", New: func() interface{} { return pack.NewActiveStackPack() }},
	{Name: "TextPack", New: func() interface{} { return pack.NewTextPack() }},
	{Name: "ErrorSnapPack1", New: func() interface{} { return pack.NewErrorSnapPack1() }},
	{Name: "RealtimeUserPack", New: func() interface{} { return pack.NewRealtimeUserPack() }},
	{Name: "StatServicePack", New: func() interface{} { return pack.NewStatServicePack() }},
	{Name: "StatGeneralPack", New: func() interface{} { return pack.NewStatGeneralPack() }},
	{Name: "StatGeneralPack(type 0x0911)", New: func() interface{} { return pack.NewStatGeneralPackType(pack.PACK_STAT_GENERAL_1) }},
	{Name: "StatSqlPack", New: func() interface{} { return pack.NewStatSqlPack() }},
	{Name: "StatHttpcPack", New: func() interface{} { return pack.NewStatHttpcPack() }},
	{Name: "StatErrorPack", New: func() interface{} { return pack.NewStatErrorPack() }},
	{Name: "StatRemoteIpPack", New: func() interface{} { return pack.NewStatRemoteIpPack() }},
	{Name: "StatUserAgentPack", New: func() interface{} { return pack.NewStatUserAgentPack() }},
	{Name: "EventPack", New: func() interface{} { return pack.NewEventPack() }},
	{Name: "HitMapPack1", New: func() interface{} { return pack.NewHitMapPack1() }},
	{Name: "ExtensionPack", New: func() interface{} { return pack.NewExtensionPack() }},
	{Name: "TagCountPack", New: func() interface{} { return pack.NewTagCountPack() }},
	{Name: "TagLogPack", New: func() interface{} { return pack.NewTagLogPack() }},
	{Name: "CompositePack", New: func() interface{} { return pack.NewCompositePack() }},
	{Name: "LogSinkPack", New: func() interface{} { return pack.NewLogSinkPack() }},
	{Name: "ZipPack", New: func() interface{} { return pack.NewZipPack() }},
	{Name: "LogSinkZipPack", New: func() interface{} { return pack.NewLogSinkZipPack() }},
	{Name: "ServerInfoPack", New: func() interface{} { return pack.NewServerInfoPack() }},
	// not creatable through the factory
	{Name: "ProfileStepSplitPack", New: func() interface{} { return pack.NewProfileStepSplitPack() }},
	{Name: "StatTransactionPack", New: func() interface{} { return pack.NewStatTransactionPack() }},
	{Name: "StatTransactionPack1", New: func() interface{} { return pack.NewStatTransactionPack1() }},
	{Name: "SMBasePack", New: func() interface{} { return pack.NewSMBasePack() }, PostFill: fixSMBase},
	{Name: "SMDiskPerfPack", New: func() interface{} { return pack.NewSMDiskPerfPack() }},
	{Name: "SMDownCheckPack", New: func() interface{} { return pack.NewSMDownCheckPack() }},
	{Name: "SMExtension", New: func() interface{} { return pack.NewSMExtensionPack() }},
	{Name: "SMLogEventPack", New: func() interface{} { return pack.NewSMLogEventPack() }},
	{Name: "SMNetPerfPack", New: func() interface{} { return pack.NewSMNetPerfPack() }},
	{Name: "SMPingPack", New: func() interface{} { return pack.NewSMPingPack() }},
	{Name: "SMProcPerfPack", New: func() interface{} { return pack.NewSMProcPerfPack() }},
	{Name: "SMTCPPerfPack", New: func() interface{} { return pack.NewSMTCPPerfPack() }},
}

// Discover probes every 16-bit type code through the factory and marks the registry; it returns the
// concrete type names the factory creates that the registry does not know (must be empty).
func Discover() (codes []int, unknown []string) {
	byName := map[string]*Type{}
	for i := range Registry {
		byName[reflect.TypeOf(Registry[i].New()).String()] = &Registry[i]
	}
	seen := map[string]bool{}
	for c := -32768; c <= 32767; c++ {
		var p pack.Pack
		func() {
			defer func() { recover() }()
			p = pack.CreatePack(int16(c))
		}()
		if p == nil || reflect.ValueOf(p).IsNil() {
			continue
		}
		codes = append(codes, c)
		tn := reflect.TypeOf(p).String()
		if t, ok := byName[tn]; ok {
			t.Registered = true
		} else if !seen[tn] {
			seen[tn] = true
			unknown = append(unknown, fmt.Sprintf("%s (code 0x%04x)", tn, uint16(c)))
		}
	}
	for i := range Registry {
		if strings.HasPrefix(Registry[i].Name, "StatGeneralPack") {
			Registry[i].Registered = Registry[i].Name == "StatGeneralPack"
		}
	}
	return
}

// ---- hints -----------------------------------------------------------------------------------------

func mapValue(n int, ord int) *value.MapValue {
	m := value.NewMapValue()
	for i := 0; i < n; i++ {
		switch i % 3 {
		case 0:
			m.Put(fmt.Sprintf("k%d_%d", ord, i), value.NewTextValue(fmt.Sprintf("v%d", ord)))
		case 1:
			m.Put(fmt.Sprintf("n%d", i), value.NewDecimalValue(int64(ord)*1000+int64(i)))
		default:
			m.Put("", value.NewBoolValue(true))
		}
	}
	return m
}

func intMapValue(n int, ord int) *value.IntMapValue {
	m := value.NewIntMapValue()
	for i := 0; i < n; i++ {
		if i%2 == 0 {
			m.Put(int32(ord*10+i), value.NewDecimalValue(int64(ord)))
		} else {
			m.Put(int32(-i), value.NewTextValue("t"))
		}
	}
	return m
}

func txMeter(ord, i int) *pack.TxMeter {
	return &pack.TxMeter{Time: int64(ord*100 + i), Count: int32(ord + i), Error: int32(i + 1), Actx: int32(ord%7 + i + 2)}
}

func Hints() map[string][]func(ord int) interface{} {
	h := map[string][]func(ord int) interface{}{}
	h["*value.MapValue"] = []func(int) interface{}{
		func(o int) interface{} { return mapValue(2, o) },
		func(o int) interface{} { return value.NewMapValue() },
		func(o int) interface{} { return mapValue(1, o) },
		func(o int) interface{} { return mapValue(3, o) },
	}
	h["*value.IntMapValue"] = []func(int) interface{}{
		func(o int) interface{} { return intMapValue(2, o) },
		func(o int) interface{} { return value.NewIntMapValue() },
		func(o int) interface{} { return intMapValue(1, o) },
	}
	iim := func(n int) func(int) interface{} {
		return func(o int) interface{} {
			m := hmap.NewIntIntMapDefault()
			for i := 0; i < n; i++ {
				m.Put(int32(i*101*203-i), int32(o+i))
			}
			return m
		}
	}
	h["*hmap.IntIntMap"] = []func(int) interface{}{iim(2), iim(0), iim(1)}
	iilm := func(n int) func(int) interface{} {
		return func(o int) interface{} {
			m := hmap.NewIntIntLinkedMap()
			for i := 0; i < n; i++ {
				m.Put(int32(i*101*203-i), int32(o+i))
			}
			return m
		}
	}
	h["*hmap.IntIntLinkedMap"] = []func(int) interface{}{iilm(2), iilm(0), iilm(1)}
	h["*hmap.StringIntLinkedMap"] = []func(int) interface{}{
		func(o int) interface{} {
			m := hmap.NewStringIntLinkedMap()
			m.Put("h1", int32(o))
			m.Put("h2", -1)
			return m
		},
		func(o int) interface{} { return hmap.NewStringIntLinkedMap() },
	}
	meter := func(kind string, n int) func(int) interface{} {
		return func(o int) interface{} {
			m := hmap.NewIntKeyLinkedMapDefault()
			for i := 0; i < n; i++ {
				switch kind {
				case "tx":
					m.Put(int32(o*3+i), txMeter(o, i))
				case "sql":
					m.Put(int32(o*3+i), &pack.SqlMeter{TxMeter: *txMeter(o, i), FetchCount: int64(o + 9), FetchTime: int64(i + 4)})
				case "httpc":
					m.Put(int32(o*3+i), &pack.HttpcMeter{TxMeter: *txMeter(o, i)})
				}
			}
			return m
		}
	}
	for f, k := range map[string]string{"TxcallerOidMeter": "tx", "SqlMeter": "sql", "HttpcMeter": "httpc"} {
		h["CounterPack1."+f] = []func(int) interface{}{meter(k, 2), meter(k, 0), meter(k, 1)}
	}
	lm := func(kind string, n int) func(int) interface{} {
		return func(o int) interface{} {
			m := hmap.NewLinkedMapDefault()
			for i := 0; i < n; i++ {
				if kind == "pkind" {
					m.Put(lang.NewPKIND(int64(o*1000+i), int32(i+1)), txMeter(o, i))
				} else {
					m.Put(lang.NewPOID(int64(o*1000+i), int32(i+1)), txMeter(o, i))
				}
			}
			return m
		}
	}
	h["CounterPack1.TxcallerGroupMeter"] = []func(int) interface{}{lm("pkind", 2), lm("pkind", 0), lm("pkind", 1)}
	h["CounterPack1.TxcallerPOidMeter"] = []func(int) interface{}{lm("poid", 2), lm("poid", 0), lm("poid", 1)}
	h["CounterPack1.ActiveStatKeys"] = []func(int) interface{}{} // constant, not carried
	h["CounterPack1.CollectIntervalMs"] = []func(int) interface{}{}
	h["EventPack.Attr"] = []func(int) interface{}{
		func(o int) interface{} {
			m := hmap.NewStringKeyLinkedMap()
			m.Put("a1", fmt.Sprintf("x%d", o))
			m.Put("a2", "")
			return m
		},
		func(o int) interface{} { return hmap.NewStringKeyLinkedMap() },
	}
	h["ParamPack.table"] = []func(int) interface{}{
		func(o int) interface{} {
			m := hmap.NewStringKeyLinkedMap()
			m.Put("p1", value.NewTextValue(fmt.Sprintf("x%d", o)))
			m.Put("p2", value.NewDecimalValue(int64(o)))
			m.Put("p3", mapValue(2, o))
			return m
		},
		func(o int) interface{} { return hmap.NewStringKeyLinkedMap() },
	}
	sg := func(n int) func(int) interface{} {
		return func(o int) interface{} {
			m := hmap.NewStringKeyLinkedMap()
			for i := 0; i < n; i++ {
				switch i {
				case 0:
					l := list.NewIntListDefault()
					l.AddInt(o)
					l.AddInt(-1)
					m.Put("ints", l)
				case 1:
					l := list.NewStringListDefault()
					l.AddString("s")
					l.AddString("")
					m.Put("strs", l)
				case 2:
					l := list.NewDoubleListDefault()
					l.AddDouble(1.5)
					m.Put("dbl", l)
				case 3:
					l := list.NewLongListDefault()
					l.AddLong(1 << 40)
					m.Put("lng", l)
				default:
					l := list.NewFloatListDefault()
					l.AddFloat(2.5)
					m.Put("flt", l)
				}
			}
			return m
		}
	}
	h["StatGeneralPack.data"] = []func(int) interface{}{sg(2), sg(0), sg(5)}
	for _, f := range []string{"dataBytes", "dataBytesSize", "packType"} {
		h["StatGeneralPack."+f] = []func(int) interface{}{}
	}
	tc := func(n int) func(int) interface{} {
		return func(o int) interface{} {
			m := hmap.NewIntKeyMapDefault()
			for i := 0; i < n; i++ {
				m.Put(int32(o+i*7), pack.NewTimeCount(int32(o+i), int32(i), int64(o*10+i)))
			}
			return m
		}
	}
	h["*hmap.IntKeyMap"] = []func(int) interface{}{tc(2), tc(0), tc(1)}
	h["ProfilePack.Transaction"] = []func(int) interface{}{
		func(o int) interface{} {
			t := service.NewTxRecord()
			t.Txid = int64(o) + 77
			t.Elapsed = 12
			t.Service = 55
			return t
		},
		func(o int) interface{} { return service.NewTxRecord() },
	}
	h["CompositePack.pack"] = []func(int) interface{}{
		func(o int) interface{} {
			t := pack.NewTextPack()
			t.Pcode = 5
			t.AddText(pack.TextRec{Div: 1, Hash: 2, Text: "three"})
			e := pack.NewParamPack()
			e.Id = int32(o)
			e.PutString("k", "v")
			return []pack.Pack{t, e}
		},
		func(o int) interface{} { return []pack.Pack{} },
		func(o int) interface{} { return []pack.Pack{pack.NewHitMapPack1()} },
	}
	// SMBasePack's interface fields are set by PostFill from OS
	for _, f := range []string{"Cpu", "CpuCore", "Memory"} {
		h["SMBasePack."+f] = []func(int) interface{}{}
	}
	return h
}

func fixSMBase(obj interface{}) {
	p := obj.(*pack.SMBasePack)
	f := &enum.Filler{}
	typical := func(string, int) int { return 1 }
	if p.OS == pack.OS_WINDOW {
		c, m := &pack.CpuWindow{}, &pack.MemoryWindow{}
		f.Fill(c, typical)
		f.Fill(m, typical)
		p.Cpu, p.Memory = c, m
		core := &pack.CpuWindow{}
		f.Fill(core, typical)
		p.CpuCore = []pack.Cpu{core}
		return
	}
	if p.OS != pack.OS_LINUX && p.OS != pack.OS_OSX {
		p.OS = pack.OS_LINUX
	}
	c, m := &pack.CpuLinux{}, &pack.MemoryLinux{}
	f.Fill(c, typical)
	f.Fill(m, typical)
	p.Cpu, p.Memory = c, m
	core := &pack.CpuLinux{}
	f.Fill(core, typical)
	p.CpuCore = []pack.Cpu{core, core}
}

// ---- assignments -----------------------------------------------------------------------------------------

// Assignment identifies one object: a base (0 = as constructed, 1 = every slot typical) plus
// deviations slot -> alternative.
type Assignment struct {
	Type *Type
	Base int
	Dev  map[string]int
}

func (a Assignment) String() string {
	var d []string
	for k, v := range a.Dev {
		d = append(d, fmt.Sprintf("%s:=alt%d", k, v))
	}
	sort.Strings(d)
	return fmt.Sprintf("%s base%d %s", a.Type.Name, a.Base, strings.Join(d, " "))
}

var hints = Hints()

// Quarantine lists slots that stay at the constructor's value in the all-typical base because a
// known finding makes any pack with that section undecodable; they are still exercised as explicit
// deviations (which reproduce the finding), but no longer mask every other deviation of the type.
var Quarantine = map[string]bool{
	"CounterPack1.TxcallerPOidMeter": true,
}

// Build constructs the object of an assignment and returns the slots seen.
func (a Assignment) Build() (interface{}, []enum.Slot) {
	obj := a.Type.New()
	f := &enum.Filler{Hints: hints}
	f.Fill(obj, func(slot string, n int) int {
		if c, ok := a.Dev[slot]; ok {
			return c
		}
		if a.Base == 1 && n > 1 && !Quarantine[a.Type.Name+"."+slot] {
			return 1
		}
		return 0
	})
	if a.Type.PostFill != nil {
		a.Type.PostFill(obj)
	}
	slots := append([]enum.Slot{}, f.Slots...)
	return obj, slots
}

// FillTypical sets every reflected slot of an arbitrary object to its typical value.
func FillTypical(obj interface{}) {
	f := &enum.Filler{Hints: hints}
	f.Fill(obj, func(slot string, n int) int {
		if n > 1 {
			return 1
		}
		return 0
	})
}

// Enumerate calls f for every assignment of t with at most k deviations from each of the two bases.
func Enumerate(t *Type, k int, f func(a Assignment)) {
	for base := 0; base <= 1; base++ {
		b := Assignment{Type: t, Base: base, Dev: map[string]int{}}
		f(b)
		_, slots := b.Build()
		if k >= 1 {
			for _, s := range slots {
				for alt := 0; alt < s.N; alt++ {
					if (base == 0 && alt == 0) || (base == 1 && alt == 1) {
						continue
					}
					f(Assignment{Type: t, Base: base, Dev: map[string]int{s.Path: alt}})
				}
			}
		}
		if k >= 2 {
			for i, s1 := range slots {
				for _, s2 := range slots[i+1:] {
					for a1 := 0; a1 < s1.N; a1++ {
						if (base == 0 && a1 == 0) || (base == 1 && a1 == 1) {
							continue
						}
						for a2 := 0; a2 < s2.N; a2++ {
							if (base == 0 && a2 == 0) || (base == 1 && a2 == 1) {
								continue
							}
							f(Assignment{Type: t, Base: base, Dev: map[string]int{s1.Path: a1, s2.Path: a2}})
						}
					}
				}
			}
		}
	}
}

// ---- oracle -----------------------------------------------------------------------------------------

// Encode serialises a pack with its type tag; panics are returned.
func Encode(obj interface{}) (b []byte, err interface{}) {
	defer func() {
		if r := recover(); r != nil {
			err = r
		}
	}()
	p := obj.(packIface)
	out := gio.NewDataOutputX()
	out.WriteShort(p.GetPackType())
	p.Write(out)
	return append([]byte{}, out.ToByteArray()...), nil
}

// Decode reads a type-tagged pack: through the factory when the type is registered there, else by
// constructing the type and calling Read.
func Decode(t *Type, b []byte) (obj interface{}, left int, err interface{}) {
	defer func() {
		if r := recover(); r != nil {
			err = r
		}
	}()
	in := gio.NewDataInputX(b)
	if t.Registered {
		obj = pack.ReadPack(in)
	} else {
		in.ReadShort()
		o := t.New().(packIface)
		o.Read(in)
		obj = o
	}
	return obj, int(in.Available()), nil
}

type Verdict struct {
	Class string // "" ok; write-panic | decode-panic | type | unconsumed | reencode-panic | reencode
	Field string // first differing field (diagnostic)
	Msg   string
	Bytes []byte
}

// RoundTrip applies the C03 oracle to one object.
func RoundTrip(t *Type, obj interface{}) Verdict {
	b, err := Encode(obj)
	if err != nil {
		return Verdict{Class: "write-panic", Msg: fmt.Sprintf("Write panicked: %v", err)}
	}
	dec, left, derr := Decode(t, b)
	if derr != nil {
		return Verdict{Class: "decode-panic", Msg: fmt.Sprintf("decoding %d bytes panicked: %v", len(b), derr), Bytes: b}
	}
	if reflect.TypeOf(dec) != reflect.TypeOf(obj) {
		return Verdict{Class: "type", Msg: fmt.Sprintf("decoded to %T", dec), Bytes: b}
	}
	field := Diff(obj, dec)
	if left != 0 {
		return Verdict{Class: "unconsumed", Field: field, Msg: fmt.Sprintf("decoding left %d of %d bytes unread (first differing field: %s)", left, len(b), field), Bytes: b}
	}
	b2, err2 := Encode(dec)
	if err2 != nil {
		return Verdict{Class: "reencode-panic", Field: field, Msg: fmt.Sprintf("re-encoding the decoded pack panicked: %v", err2), Bytes: b}
	}
	if !bytes.Equal(b, b2) {
		return Verdict{Class: "reencode", Field: field, Msg: fmt.Sprintf("re-encoding the decoded pack differs at byte %d of %d/%d (first differing field: %s)", firstDiff(b, b2), len(b), len(b2), field), Bytes: b}
	}
	return Verdict{Bytes: b}
}

func firstDiff(a, b []byte) int {
	for i := 0; i < len(a) && i < len(b); i++ {
		if a[i] != b[i] {
			return i
		}
	}
	if len(a) < len(b) {
		return len(a)
	}
	return len(b)
}

// Diff names the first field in which two objects differ, comparing containers by content.
func Diff(a, b interface{}) string {
	return diffVal(reflect.ValueOf(a), reflect.ValueOf(b), "", 0)
}

func opaque(t reflect.Type) bool {
	if t.Kind() == reflect.Ptr {
		t = t.Elem()
	}
	p := t.PkgPath()
	return strings.HasSuffix(p, "util/hmap") || strings.HasSuffix(p, "lang/value") || strings.HasSuffix(p, "util/list")
}

func contentString(v reflect.Value) string {
	if !v.IsValid() || (v.Kind() == reflect.Ptr || v.Kind() == reflect.Interface) && v.IsNil() {
		return "<nil>"
	}
	if v.Kind() == reflect.Interface {
		v = v.Elem()
	}
	if vv, ok := settableIface(v).(value.Value); ok {
		out := gio.NewDataOutputX()
		value.WriteValue(out, vv)
		return fmt.Sprintf("%x", out.ToByteArray())
	}
	for _, m := range []string{"ToString", "String"} {
		if mm := v.MethodByName(m); mm.IsValid() && mm.Type().NumIn() == 0 && v.CanInterface() {
			func() {
				defer func() { recover() }()
			}()
			return fmt.Sprint(mm.Call(nil)[0])
		}
	}
	return fmt.Sprintf("%v", v)
}

func settableIface(v reflect.Value) interface{} {
	if v.CanInterface() {
		return v.Interface()
	}
	return nil
}

func diffVal(a, b reflect.Value, path string, depth int) string {
	if depth > 10 || !a.IsValid() || !b.IsValid() {
		if a.IsValid() != b.IsValid() {
			return path
		}
		return ""
	}
	if a.Type() != b.Type() {
		return path + "(type)"
	}
	if opaque(a.Type()) && (a.Kind() == reflect.Ptr || a.Kind() == reflect.Interface) {
		sa, sb := safeContent(a), safeContent(b)
		if sa != sb {
			// nil vs empty containers are the same on the wire
			if (sa == "<nil>" || sb == "<nil>") && (len(sa) <= 8 || len(sb) <= 8) {
				return ""
			}
			return path
		}
		return ""
	}
	switch a.Kind() {
	case reflect.Ptr, reflect.Interface:
		if a.IsNil() || b.IsNil() {
			if a.IsNil() != b.IsNil() {
				return path
			}
			return ""
		}
		return diffVal(a.Elem(), b.Elem(), path, depth+1)
	case reflect.Struct:
		for i := 0; i < a.NumField(); i++ {
			sf := a.Type().Field(i)
			if sf.Type.Name() == "Mutex" {
				continue
			}
			p := sf.Name
			if path != "" {
				p = path + "." + p
			}
			if d := diffVal(a.Field(i), b.Field(i), p, depth+1); d != "" {
				return d
			}
		}
		return ""
	case reflect.Slice:
		if a.Len() != b.Len() {
			return path
		}
		for i := 0; i < a.Len(); i++ {
			if d := diffVal(a.Index(i), b.Index(i), fmt.Sprintf("%s[%d]", path, i), depth+1); d != "" {
				return d
			}
		}
		return ""
	}
	return enum.DeepDiff(a, b, path, depth)
}

func safeContent(v reflect.Value) (s string) {
	defer func() {
		if r := recover(); r != nil {
			s = fmt.Sprintf("<panic %v>", r)
		}
	}()
	s = contentString(v)
	t := v.Type()
	if t.Kind() == reflect.Ptr {
		t = t.Elem()
	}
	// the unordered maps enumerate in table order, which depends on the capacity: compare as sets
	if (t.Name() == "IntKeyMap" || t.Name() == "IntIntMap") && strings.HasPrefix(s, "{") && strings.HasSuffix(s, "}") {
		toks := strings.Split(s[1:len(s)-1], ", ")
		sort.Strings(toks)
		s = "{" + strings.Join(toks, ", ") + "}"
	}
	return s
}
