package packs

import (
	"bytes"
	"fmt"

	"verif/engine/evid"
	"verif/engine/seqx"
)

// Interference checks that two uses of one codec do not disturb each other: the bytes produced for a
// stay what they were while b is encoded, an object decoded from a's bytes stays what it was while b's
// bytes are decoded, and encoding a again gives the same bytes. (Recycled output buffers, scratch
// areas shared between readers and pooled compressor state only show with two things alive at once;
// three independently seeded changes were of this kind.)
func Interference(c *evid.Ctx, prop, name string, a, b interface{}, enc func(interface{}) []byte, dec func([]byte) interface{}) {
	defer func() {
		if r := recover(); r != nil {
			// whether a or b can be encoded/decoded at all is judged by the round-trip checks
		}
	}()
	ba := enc(a)
	if ba == nil {
		return
	}
	snap := append([]byte{}, ba...)
	bb := enc(b)
	if !bytes.Equal(ba, snap) {
		c.Violation(fmt.Sprintf("%s:%s:interference:encoded-bytes-changed", prop, name), fmt.Sprintf("%s: the bytes returned for one object changed while another object was encoded (first difference at byte %d of %d)", name, firstDiff(ba, snap), len(snap)), nil)
		return
	}
	if again := enc(a); !bytes.Equal(again, snap) {
		c.Violation(fmt.Sprintf("%s:%s:interference:second-encoding-differs", prop, name), fmt.Sprintf("%s: encoding the same object again after another object was encoded gives different bytes (first difference at byte %d)", name, firstDiff(again, snap)), nil)
		return
	}
	if bb == nil {
		return
	}
	da := dec(snap)
	if da == nil {
		return
	}
	before := seqx.Dump(da)
	dec(bb)
	if after := seqx.Dump(da); after != before {
		c.Violation(fmt.Sprintf("%s:%s:interference:decoded-object-changed", prop, name), fmt.Sprintf("%s: an object decoded earlier changed while other bytes were decoded", name), nil)
	}
}
