package packs

import (
	"bytes"
	"encoding/json"
	"fmt"
	"os"
	"sort"
	"strings"
	"sync"

	"verif/engine/evid"
)

// Distinct is the "distinguishing-value" baseline shared by the codec round-trip checks. The
// round-trip oracle (decode, consume exactly, re-encode byte-identically) cannot see a writer that
// drops or clamps a field, because the reader then faithfully restores the dropped state. What such a
// change does alter is the *kernel* of the encoding: two objects that used to have different bytes
// now have the same. The baseline pins, for every single-slot deviation from a base object, whether
// its bytes differed from the base's on the pinned tree; a deviation that used to differ and is now
// (stably) identical is reported: the value no longer reaches the wire.
type Distinct struct {
	mu   sync.Mutex
	cur  map[string][]string
	path string
}

func NewDistinct(path string) *Distinct { return &Distinct{cur: map[string][]string{}, path: path} }

// Probe encodes base, deviation, base (constructors may read the clock: the comparison only counts
// when both base encodings agree) and records the outcome under typ / key.
func (d *Distinct) Probe(typ, key string, base, dev func() []byte) {
	before, devb, after := base(), dev(), base()
	if before == nil || devb == nil || !bytes.Equal(before, after) {
		return
	}
	if bytes.Equal(devb, before) {
		key = "=" + key
	}
	d.mu.Lock()
	d.cur[typ] = append(d.cur[typ], key)
	d.mu.Unlock()
}

// goldenGroup: the type names "Name@variant" that share one key list are stored together (the UDP
// packs have some 170 protocol versions per type and a handful of distinct layouts).
type goldenGroup struct {
	Name string   `json:"name"`
	IDs  []string `json:"ids"`
	Keys []string `json:"keys"`
}

func group(m map[string][]string) []goldenGroup {
	idx := map[string]int{}
	var out []goldenGroup
	var names []string
	for tn := range m {
		names = append(names, tn)
	}
	sort.Strings(names)
	for _, tn := range names {
		name, id := tn, ""
		if i := strings.Index(tn, "@"); i >= 0 {
			name, id = tn[:i], tn[i:]
		}
		sig := name + "\x00" + strings.Join(m[tn], "\x00")
		if j, ok := idx[sig]; ok {
			out[j].IDs = append(out[j].IDs, id)
			continue
		}
		idx[sig] = len(out)
		out = append(out, goldenGroup{Name: name, IDs: []string{id}, Keys: m[tn]})
	}
	return out
}

// Finish writes the baseline (VERIF_GOLDEN_WRITE) or compares with it.
func (d *Distinct) Finish(c *evid.Ctx, prop string) {
	if os.Getenv("VERIF_GOLDEN_WRITE") != "" {
		only := map[string][]string{}
		for tn, ks := range d.cur {
			for _, k := range ks {
				if !strings.HasPrefix(k, "=") {
					only[tn] = append(only[tn], k)
				}
			}
			sort.Strings(only[tn])
		}
		js, _ := json.Marshal(group(only))
		os.WriteFile(d.path, js, 0o644)
		fmt.Println("distinguishing-value baseline written to", d.path)
	}
	var groups []goldenGroup
	js, err := os.ReadFile(d.path)
	if err != nil {
		c.Broken("distinguishing-value baseline missing: " + err.Error())
		return
	}
	if err := json.Unmarshal(js, &groups); err != nil {
		c.Broken("distinguishing-value baseline unreadable: " + err.Error())
		return
	}
	want := map[string][]string{}
	for _, g := range groups {
		for _, id := range g.IDs {
			want[g.Name+id] = g.Keys
		}
	}
	n := 0
	for tn, keys := range want {
		have := map[string]bool{}
		for _, k := range d.cur[tn] {
			have[k] = true
		}
		for _, k := range keys {
			n++
			if have["="+k] {
				parts := strings.SplitN(k, "|", 3)
				slot := k
				if len(parts) == 3 {
					slot = parts[1]
				}
				if i := strings.Index(slot, "["); i >= 0 {
					slot = slot[:i]
				}
				c.Violation(fmt.Sprintf("%s:%s:value-not-carried:%s", prop, tn, slot), fmt.Sprintf("%s: the single deviation %s no longer changes the encoding (it did on the pinned tree): the value is lost on the wire", tn, k), nil)
			}
		}
	}
	c.Cov["distinguishing_single_deviations_in_baseline"] = n
}
