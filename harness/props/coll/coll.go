// Package coll is the reflective driver for golib's collection types (util/hmap, util/list,
// util/queue) shared by C09, C10, C11, C12: descriptors, key/value alphabets, method invocation by
// name with canonical result formatting.
package coll

import (
	"fmt"
	"hash/crc32"
	"math"
	"reflect"
	"sort"
	"strings"
	"sync"
	"verif/engine/evid"

	"github.com/whatap/golib/io"
	"github.com/whatap/golib/util/hash"
	"github.com/whatap/golib/util/hmap"
	"github.com/whatap/golib/util/list"
	"github.com/whatap/golib/util/queue"
	"github.com/whatap/golib/util/stringutil"
)

// HK is the harness's LinkedKey with a scripted hash.
type HK struct {
	H  uint
	ID int
}

func (k HK) Hash() uint { return k.H }
func (k HK) Equals(o hmap.LinkedKey) bool {
	if o == nil {
		return false
	}
	ok, is := o.(HK)
	return is && ok.ID == k.ID
}
func (k HK) String() string { return fmt.Sprintf("hk%d", k.ID) }

var linkedKeyT = reflect.TypeOf((*hmap.LinkedKey)(nil)).Elem()
var ifaceT = reflect.TypeOf((*interface{})(nil)).Elem()

type Ctor struct {
	Name string
	New  func() interface{}
}

type Desc struct {
	Name     string
	Ctors    []Ctor
	KeyT     reflect.Type // nil for list/queue
	ValT     reflect.Type // nil for sets
	Linked   bool         // insertion ordered
	Family   string       // "linkedmap","linkedset","map","set","list","queue","dqueue"
	NullKey  bool         // "" is refused as a key
	HashCode bool         // string keys are hashed with stringutil.HashCode instead of CRC-32
}

func (d *Desc) New() interface{} { return d.Ctors[0].New() }

var (
	i32T = reflect.TypeOf(int32(0))
	i64T = reflect.TypeOf(int64(0))
	f32T = reflect.TypeOf(float32(0))
	strT = reflect.TypeOf("")
	intT = reflect.TypeOf(int(0))
)

func capLoadCtors(name string, mk func(c int, lf float32) interface{}, def func() interface{}) []Ctor {
	cs := []Ctor{{name + "Default", def}}
	for _, c := range []int{0, 1, 2, 3, 101} {
		for _, lf := range []float32{0.5, 0.75, 1.0} {
			c, lf := c, lf
			cs = append(cs, Ctor{fmt.Sprintf("%s(%d,%g)", name, c, lf), func() interface{} { return mk(c, lf) }})
		}
	}
	return cs
}

// Descs lists every collection type under test.
var Descs = []*Desc{
	{Name: "LinkedMap", KeyT: linkedKeyT, ValT: ifaceT, Linked: true, Family: "linkedmap",
		Ctors: capLoadCtors("NewLinkedMap", func(c int, lf float32) interface{} { return hmap.NewLinkedMap(c, lf) }, func() interface{} { return hmap.NewLinkedMapDefault() })},
	{Name: "IntKeyLinkedMap", KeyT: i32T, ValT: ifaceT, Linked: true, Family: "linkedmap",
		Ctors: capLoadCtors("NewIntKeyLinkedMap", func(c int, lf float32) interface{} { return hmap.NewIntKeyLinkedMap(c, lf) }, func() interface{} { return hmap.NewIntKeyLinkedMapDefault() })},
	{Name: "LongKeyLinkedMap", KeyT: i64T, ValT: ifaceT, Linked: true, Family: "linkedmap",
		Ctors: capLoadCtors("NewLongKeyLinkedMap", func(c int, lf float32) interface{} { return hmap.NewLongKeyLinkedMap(c, lf) }, func() interface{} { return hmap.NewLongKeyLinkedMapDefault() })},
	{Name: "StringKeyLinkedMap", KeyT: strT, ValT: ifaceT, Linked: true, Family: "linkedmap",
		Ctors: []Ctor{{"NewStringKeyLinkedMap", func() interface{} { return hmap.NewStringKeyLinkedMap() }}}},
	{Name: "IntIntLinkedMap", KeyT: i32T, ValT: i32T, Linked: true, Family: "linkedmap",
		Ctors: []Ctor{{"NewIntIntLinkedMap", func() interface{} { return hmap.NewIntIntLinkedMap() }}}},
	{Name: "IntFloatLinkedMap", KeyT: i32T, ValT: f32T, Linked: true, Family: "linkedmap",
		Ctors: []Ctor{{"NewIntFloatLinkedMap", func() interface{} { return hmap.NewIntFloatLinkedMap() }}}},
	{Name: "LongFloatLinkedMap", KeyT: i64T, ValT: f32T, Linked: true, Family: "linkedmap",
		Ctors: []Ctor{{"NewLongFloatLinkedMap", func() interface{} { return hmap.NewLongFloatLinkedMap() }}}},
	{Name: "LongLongLinkedMap", KeyT: i64T, ValT: i64T, Linked: true, Family: "linkedmap",
		Ctors: capLoadCtors("NewLongLongLinkedMap", func(c int, lf float32) interface{} { return hmap.NewLongLongLinkedMap(c, lf) }, func() interface{} { return hmap.NewLongLongLinkedMapDefault() })},
	{Name: "StringIntLinkedMap", KeyT: strT, ValT: i32T, Linked: true, Family: "linkedmap", NullKey: true,
		Ctors: []Ctor{{"NewStringIntLinkedMap", func() interface{} { return hmap.NewStringIntLinkedMap() }}}},
	{Name: "StringLongLinkedMap", KeyT: strT, ValT: i64T, Linked: true, Family: "linkedmap", NullKey: true,
		Ctors: []Ctor{{"NewStringLongLinkedMap", func() interface{} { return hmap.NewStringLongLinkedMap() }}}},
	{Name: "LinkedSet", KeyT: linkedKeyT, Linked: true, Family: "linkedset",
		Ctors: []Ctor{{"NewLinkedSet", func() interface{} { return hmap.NewLinkedSet() }}}},
	{Name: "IntLinkedSet", KeyT: i32T, Linked: true, Family: "linkedset",
		Ctors: []Ctor{{"NewIntLinkedSet", func() interface{} { return hmap.NewIntLinkedSet() }}}},
	{Name: "StringLinkedSet", KeyT: strT, Linked: true, Family: "linkedset", NullKey: true, HashCode: true,
		Ctors: []Ctor{{"NewStringLinkedSet", func() interface{} { return hmap.NewStringLinkedSet() }}}},
	{Name: "IntIntMap", KeyT: i32T, ValT: i32T, Family: "map",
		Ctors: capLoadCtors("NewIntIntMap", func(c int, lf float32) interface{} { return hmap.NewIntIntMap(c, lf) }, func() interface{} { return hmap.NewIntIntMapDefault() })},
	{Name: "IntKeyMap", KeyT: i32T, ValT: ifaceT, Family: "map",
		Ctors: capLoadCtors("NewIntKeyMap", func(c int, lf float32) interface{} { return hmap.NewIntKeyMap(c, lf) }, func() interface{} { return hmap.NewIntKeyMapDefault() })},
	{Name: "IntSet", KeyT: i32T, Family: "set",
		Ctors: []Ctor{{"NewIntSet", func() interface{} { return hmap.NewIntSet() }}}},
	{Name: "StringSet", KeyT: strT, Family: "set", NullKey: true,
		Ctors: []Ctor{{"NewStringSet", func() interface{} { return hmap.NewStringSet() }}}},
	{Name: "LinkedList", ValT: ifaceT, Family: "list",
		Ctors: []Ctor{{"NewLinkedList", func() interface{} { return list.NewLinkedList() }}}},
	{Name: "RequestQueue", ValT: ifaceT, Family: "queue",
		Ctors: []Ctor{{"NewRequestQueue(0)", func() interface{} { return queue.NewRequestQueue(0) }}, {"NewRequestQueue(1)", func() interface{} { return queue.NewRequestQueue(1) }}, {"NewRequestQueue(2)", func() interface{} { return queue.NewRequestQueue(2) }}}},
	{Name: "RequestDoubleQueue", ValT: ifaceT, Family: "dqueue",
		Ctors: []Ctor{{"NewRequestDoubleQueue(0,0)", func() interface{} { return queue.NewRequestDoubleQueue(0, 0) }}, {"NewRequestDoubleQueue(1,1)", func() interface{} { return queue.NewRequestDoubleQueue(1, 1) }}, {"NewRequestDoubleQueue(2,2)", func() interface{} { return queue.NewRequestDoubleQueue(2, 2) }}}},
}

func DescByName(n string) *Desc {
	for _, d := range Descs {
		if d.Name == n {
			return d
		}
	}
	return nil
}

// ---- alphabets --------------------------------------------------------------------------------

const collide = 101 * 203 // same bucket in the 101- and the 203-bucket table

var strKeys = map[bool][]string{}

// StringKeys returns n distinct non-empty strings that the type's string hash (CRC-32, or the
// Java-style hash code StringLinkedSet uses) puts into bucket 0 of both the 101- and the
// 203-bucket table: they collide before and after the first growth, and a scan that skips the
// first or the last bucket cannot get away with it.
func StringKeys(hashCode bool, n int) []string {
	if len(strKeys[hashCode]) >= n {
		return strKeys[hashCode][:n]
	}
	var ks []string
	for i := 1; len(ks) < 6; i++ {
		s := fmt.Sprintf("k%d", i)
		var h uint
		if hashCode {
			h = uint(stringutil.HashCode(s))
		} else {
			h = uint(hash.HashStr(s))
		}
		if h%101 == 0 && h%203 == 0 {
			ks = append(ks, s)
		}
		if i > 200_000_000 {
			panic("no colliding strings")
		}
	}
	strKeys[hashCode] = ks
	return ks[:n]
}

// Twin returns a printable string different from s with the same full 32-bit hash (CRC-32 forged by
// a four-byte suffix, or the Java-style hash code by the classic "Aa"/"BB" exchange): two keys that
// only a comparison of the keys themselves can tell apart. The hashes are the reference ones, not the
// library's.
var twins = map[string]string{}
var twinsMu sync.Mutex

func Twin(s string, hashCode bool) string {
	twinsMu.Lock()
	defer twinsMu.Unlock()
	if t, ok := twins[s]; ok {
		return t
	}
	var t string
	if hashCode {
		jh := func(x string) int32 {
			var h int32
			for i := 0; i < len(x); i++ {
				h = 31*h + int32(x[i])
			}
			return h
		}
		// change two adjacent characters (c, d) into (c-1, d+31) or (c+1, d-31): same polynomial value
		b := []byte(s)
		for i := 0; i+1 < len(b); i++ {
			if b[i] > 0x22 && b[i+1]+31 <= 0x7e {
				b[i]--
				b[i+1] += 31
				break
			}
			if b[i] < 0x7e && b[i+1] >= 0x21+31 {
				b[i]++
				b[i+1] -= 31
				break
			}
		}
		t = string(b)
		if t == s || jh(t) != jh(s) {
			panic("Twin: no hash-code twin for " + s)
		}
	} else {
		tab := crc32.IEEETable
		var rev [256]byte
		for i := 0; i < 256; i++ {
			rev[tab[i]>>24] = byte(i)
		}
		want := ^crc32.ChecksumIEEE([]byte(s))
		for n := 0; t == ""; n++ {
			if n > 1_000_000 {
				panic("Twin: no printable CRC twin for " + s)
			}
			prefix := []byte(fmt.Sprintf("t%d-", n))
			var idx [4]byte
			x := want
			for i := 3; i >= 0; i-- {
				idx[i] = rev[x>>24]
				x = (x ^ tab[idx[i]]) << 8
			}
			r := ^crc32.ChecksumIEEE(prefix)
			out := append([]byte{}, prefix...)
			ok := true
			for i := 0; i < 4; i++ {
				c := byte(r) ^ idx[i]
				if c < 0x21 || c > 0x7e || c == '"' || c == '\\' {
					ok = false
					break
				}
				out = append(out, c)
				r = (r >> 8) ^ tab[idx[i]]
			}
			if ok && crc32.ChecksumIEEE(out) == crc32.ChecksumIEEE([]byte(s)) && string(out) != s {
				t = string(out)
			}
		}
	}
	twins[s] = t
	return t
}

// Keys returns the key alphabet of the given size for a key type: colliding keys first.
func Keys(d *Desc, n int) []reflect.Value {
	t := d.KeyT
	var out []reflect.Value
	switch t {
	case i32T:
		for _, k := range []int32{0, collide, -collide, math.MinInt32, math.MaxInt32, 2 * collide, 7} {
			out = append(out, reflect.ValueOf(k))
		}
	case i64T:
		for _, k := range []int64{0, collide, -collide, math.MinInt64, math.MaxInt64, 2 * collide, 1 << 32} {
			out = append(out, reflect.ValueOf(k))
		}
	case strT:
		// the second key has the same full hash as the first (only comparing the keys themselves tells
		// them apart), the others share their bucket in the 101- and the 203-bucket table
		ks := StringKeys(d.HashCode, 4)
		for _, k := range []string{ks[0], Twin(ks[0], d.HashCode), "", ks[1], "zz-other", ks[2]} {
			out = append(out, reflect.ValueOf(k))
		}
	case linkedKeyT:
		for _, k := range []HK{{0, 1}, {0, 2}, {collide, 3}, {^uint(0), 4}, {5, 5}, {0, 6}} {
			out = append(out, reflect.ValueOf(k))
		}
	default:
		panic("Keys: unsupported type " + t.String())
	}
	if n > len(out) {
		n = len(out)
	}
	return out[:n]
}

// KeysNZ returns n colliding keys none of which is the type's zero value (so that the zero key of a
// header sentinel can never be confused with a stored key).
func KeysNZ(d *Desc, n int) []reflect.Value {
	t := d.KeyT
	var out []reflect.Value
	switch t {
	case i32T:
		for _, k := range []int32{collide, 2 * collide, -collide, 3 * collide} {
			out = append(out, reflect.ValueOf(k))
		}
	case i64T:
		for _, k := range []int64{collide, 2 * collide, -collide, 3 * collide} {
			out = append(out, reflect.ValueOf(k))
		}
	case strT:
		for _, k := range StringKeys(d.HashCode, 4) {
			out = append(out, reflect.ValueOf(k))
		}
	case linkedKeyT:
		for _, k := range []HK{{0, 1}, {0, 2}, {collide, 3}, {0, 6}} {
			out = append(out, reflect.ValueOf(k))
		}
	default:
		panic("KeysNZ: unsupported type " + t.String())
	}
	return out[:n]
}

// FillerKeys returns n distinct non-zero keys that are none of the alphabet keys above (spread over
// the buckets): used to fill a table up to its growth threshold.
func FillerKeys(d *Desc, n int) []reflect.Value {
	var out []reflect.Value
	for i := 0; i < n; i++ {
		switch d.KeyT {
		case i32T:
			out = append(out, reflect.ValueOf(int32(1000+i)))
		case i64T:
			out = append(out, reflect.ValueOf(int64(1000+i)))
		case strT:
			out = append(out, reflect.ValueOf(fmt.Sprintf("filler%d", i)))
		case linkedKeyT:
			out = append(out, reflect.ValueOf(HK{uint(1000 + i), 100 + i}))
		default:
			panic("FillerKeys: unsupported type " + d.KeyT.String())
		}
	}
	return out
}

// KeyGen lets a harness choose the key alphabet ArgSets uses (default Keys).
var KeyGen = Keys

// Vals returns the value alphabet.
func Vals(t reflect.Type, n int) []reflect.Value {
	var out []reflect.Value
	switch t {
	case i32T:
		for _, v := range []int32{1, 0, -3} { // 0 is the default "no value" answer: storing it is legal
			out = append(out, reflect.ValueOf(v))
		}
	case i64T:
		for _, v := range []int64{1, 0, -3} {
			out = append(out, reflect.ValueOf(v))
		}
	case f32T:
		for _, v := range []float32{1.5, 0, -3} {
			out = append(out, reflect.ValueOf(v))
		}
	case ifaceT:
		for _, v := range []string{"v1", "v2", "v3"} {
			out = append(out, reflect.ValueOf(v))
		}
	default:
		panic("Vals: unsupported type " + t.String())
	}
	if n > len(out) {
		n = len(out)
	}
	return out[:n]
}

// ---- operations -------------------------------------------------------------------------------

type Op struct {
	Method string
	Args   []reflect.Value
	Label  string
}

func (o Op) String() string { return o.Label }

func MkOp(method string, args ...reflect.Value) Op {
	parts := make([]string, len(args))
	for i, a := range args {
		parts[i] = FmtVal(a)
	}
	return Op{Method: method, Args: args, Label: method + "(" + strings.Join(parts, ",") + ")"}
}

// FmtVal formats an argument or result canonically.
func FmtVal(v reflect.Value) string {
	if !v.IsValid() {
		return "nil"
	}
	switch v.Kind() {
	case reflect.Interface:
		if v.IsNil() {
			return "nil"
		}
		return FmtVal(v.Elem())
	case reflect.Ptr:
		if v.IsNil() {
			return "nil"
		}
		return fmtPtr(v)
	case reflect.Func:
		return "func"
	case reflect.Slice:
		if v.IsNil() {
			return "[]"
		}
		parts := make([]string, v.Len())
		for i := range parts {
			parts[i] = FmtVal(v.Index(i))
		}
		return "[" + strings.Join(parts, " ") + "]"
	case reflect.Float32, reflect.Float64:
		return fmt.Sprintf("%g", v.Float())
	case reflect.String:
		return fmt.Sprintf("%q", v.String())
	case reflect.Struct:
		if v.CanInterface() {
			if s, ok := v.Interface().(fmt.Stringer); ok {
				return s.String()
			}
		}
		return fmt.Sprintf("%v", v)
	}
	if v.CanInterface() {
		return fmt.Sprintf("%v", v.Interface())
	}
	return fmt.Sprintf("%v", v)
}

// fmtPtr formats pointer results: entries as key=value, enumerations drained, self as "self".
func fmtPtr(v reflect.Value) string {
	tn := v.Type().Elem().Name()
	if m := v.MethodByName("GetKey"); m.IsValid() && m.Type().NumIn() == 0 {
		k := m.Call(nil)[0]
		if mv := v.MethodByName("GetValue"); mv.IsValid() && mv.Type().NumIn() == 0 {
			return FmtVal(k) + "=" + FmtVal(mv.Call(nil)[0])
		}
		return FmtVal(k)
	}
	if m := v.MethodByName("Get"); m.IsValid() && m.Type().NumIn() == 0 && strings.HasSuffix(tn, "try") {
		return FmtVal(m.Call(nil)[0])
	}
	if tn == "LinkedListEntity" {
		// a list node handed out by GetFirst/GetLast is emptied when it is removed later: its content
		// at formatting time is not part of what the call returned
		if val := v.Elem().FieldByName("Value"); val.IsNil() {
			return "node:removed"
		} else {
			return "node:" + FmtVal(val)
		}
	}
	return "*" + tn
}

// Drain consumes an enumeration (IntEnumer, LongEnumer, FloatEnumer, StringEnumer, Enumeration)
// into a canonical list, with a cap so that a corrupted cyclic chain cannot loop forever.
func Drain(en reflect.Value, capN int) string {
	if !en.IsValid() || (en.Kind() == reflect.Ptr || en.Kind() == reflect.Interface) && en.IsNil() {
		return "nil-enum"
	}
	has := en.MethodByName("HasMoreElements")
	if !has.IsValid() {
		return "not-an-enum:" + en.Type().String()
	}
	var next reflect.Value
	for _, n := range []string{"NextInt", "NextLong", "NextFloat", "NextString", "NextElement"} {
		if m := en.MethodByName(n); m.IsValid() {
			// prefer the typed accessor declared by the static interface type
			next = m
			break
		}
	}
	var parts []string
	for i := 0; has.Call(nil)[0].Bool(); i++ {
		if i > capN {
			parts = append(parts, "…unbounded")
			break
		}
		parts = append(parts, FmtVal(next.Call(nil)[0]))
	}
	return "<" + strings.Join(parts, " ") + ">"
}

// Apply invokes op on obj and returns a canonical result string; a panic becomes "panic: …".
func Apply(obj interface{}, op Op) (res string) {
	done := evid.OpStart(func() string { return fmt.Sprintf("%T.%s", obj, op.Label) })
	defer done()
	defer func() {
		if r := recover(); r != nil {
			res = "panic: " + trimPanic(fmt.Sprint(r))
		}
	}()
	rv := reflect.ValueOf(obj)
	m := rv.MethodByName(op.Method)
	if !m.IsValid() {
		return "no-such-method"
	}
	args := op.Args
	mt := m.Type()
	conv := make([]reflect.Value, len(args))
	for i, a := range args {
		pt := mt.In(i)
		if a.Type() != pt {
			if pt.Kind() == reflect.Interface {
				nv := reflect.New(pt).Elem()
				nv.Set(a)
				a = nv
			} else {
				a = a.Convert(pt)
			}
		}
		conv[i] = a
	}
	outs := m.Call(conv)
	if len(outs) == 0 {
		return "-"
	}
	parts := make([]string, len(outs))
	for i, o := range outs {
		if (o.Kind() == reflect.Ptr) && !o.IsNil() && o.Pointer() == rv.Pointer() {
			parts[i] = "self"
			continue
		}
		if o.Kind() == reflect.Interface && !o.IsNil() || o.Kind() == reflect.Ptr && !o.IsNil() {
			if o.MethodByName("HasMoreElements").IsValid() {
				parts[i] = Drain(o, 100000)
				continue
			}
		}
		parts[i] = FmtVal(o)
	}
	return strings.Join(parts, ",")
}

func trimPanic(s string) string {
	if len(s) > 120 {
		s = s[:120]
	}
	return s
}

// ---- argument generation for arbitrary exported methods ----------------------------------------

// ArgSets returns argument tuples for method m of desc d over nk keys and nv values, or nil if the
// method takes something the driver has no alphabet for.
func ArgSets(d *Desc, obj interface{}, m reflect.Method, nk, nv int) [][]reflect.Value {
	mt := m.Type // includes receiver at 0
	n := mt.NumIn() - 1
	choices := make([][]reflect.Value, n)
	for i := 0; i < n; i++ {
		pt := mt.In(i + 1)
		var c []reflect.Value
		lname := strings.ToLower(m.Name)
		switch {
		case pt.Kind() == reflect.Func:
			c = comparators(pt)
		case pt == reflect.TypeOf((*io.DataOutputX)(nil)):
			c = []reflect.Value{reflect.ValueOf(io.NewDataOutputX())}
		case pt == reflect.TypeOf((*io.DataInputX)(nil)):
			c = []reflect.Value{reflect.ValueOf(io.NewDataInputX([]byte{0}))}
		case pt.Kind() == reflect.Ptr && pt == reflect.TypeOf(obj):
			other := d.New()
			if d.ValT != nil {
				ks := Keys(d, 2)
				Apply(other, MkOp("Put", ks[1], Vals(d.ValT, 3)[2]))
				Apply(other, MkOp("Put", reflect.ValueOf(int32(7)).Convert(d.KeyT), Vals(d.ValT, 2)[1]))
			}
			c = []reflect.Value{reflect.ValueOf(other), reflect.ValueOf(d.New())}
		case pt.Kind() == reflect.Ptr && pt.Elem().Name() == "LinkedListEntity":
			return nil // node-taking methods are driven by the list-specific harness
		case pt.Kind() == reflect.Slice && pt.Elem() == i32T:
			c = []reflect.Value{reflect.ValueOf([]int32{0, collide}), reflect.ValueOf([]int32(nil))}
		case pt.Kind() == reflect.Slice && pt.Elem() == strT:
			c = []reflect.Value{reflect.ValueOf([]string{"k0", "x"}), reflect.ValueOf([]string(nil))}
		case d.KeyT != nil && i == 0 && pt == d.KeyT && !strings.Contains(lname, "value") && !(d.Family == "queue" || d.Family == "dqueue"):
			c = KeyGen(d, nk)
		case d.ValT != nil && pt == d.ValT:
			c = Vals(d.ValT, nv)
		case pt == intT:
			for _, v := range []int{0, 1, 2, 3} {
				c = append(c, reflect.ValueOf(v))
			}
		case pt == i32T, pt == i64T, pt == f32T, pt == strT:
			c = Vals0(pt)
		default:
			return nil
		}
		if len(c) == 0 {
			return nil
		}
		choices[i] = c
	}
	out := [][]reflect.Value{{}}
	for i := 0; i < n; i++ {
		var nx [][]reflect.Value
		for _, pre := range out {
			for _, c := range choices[i] {
				t := append(append([]reflect.Value{}, pre...), c)
				nx = append(nx, t)
			}
		}
		out = nx
	}
	return out
}

func Vals0(t reflect.Type) []reflect.Value {
	switch t {
	case i32T:
		return []reflect.Value{reflect.ValueOf(int32(1)), reflect.ValueOf(int32(0))}
	case i64T:
		return []reflect.Value{reflect.ValueOf(int64(1)), reflect.ValueOf(int64(0))}
	case f32T:
		return []reflect.Value{reflect.ValueOf(float32(1.5))}
	case strT:
		return []reflect.Value{reflect.ValueOf("k0"), reflect.ValueOf("")}
	}
	return nil
}

// comparators builds ascending and descending `func(a, b K) bool` for Sort.
func comparators(ft reflect.Type) []reflect.Value {
	if ft.NumIn() != 2 || ft.NumOut() != 1 || ft.Out(0).Kind() != reflect.Bool {
		return nil
	}
	mk := func(asc bool) reflect.Value {
		return reflect.MakeFunc(ft, func(in []reflect.Value) []reflect.Value {
			c := CompareKeys(in[0], in[1])
			if asc {
				return []reflect.Value{reflect.ValueOf(c < 0)}
			}
			return []reflect.Value{reflect.ValueOf(c > 0)}
		})
	}
	return []reflect.Value{mk(true), mk(false)}
}

// CompareKeys is the total order the harness's comparators implement.
func CompareKeys(a, b reflect.Value) int {
	for a.Kind() == reflect.Interface && !a.IsNil() {
		a = a.Elem()
	}
	for b.Kind() == reflect.Interface && !b.IsNil() {
		b = b.Elem()
	}
	switch a.Kind() {
	case reflect.Int32, reflect.Int64, reflect.Int:
		x, y := a.Int(), b.Int()
		if x < y {
			return -1
		} else if x > y {
			return 1
		}
		return 0
	case reflect.String:
		return strings.Compare(a.String(), b.String())
	case reflect.Struct:
		x, y := a.Interface().(HK).ID, b.Interface().(HK).ID
		return x - y
	}
	panic("CompareKeys: kind " + a.Kind().String())
}

// ExportedMethods lists the exported methods of obj's type, sorted by name.
func ExportedMethods(obj interface{}) []reflect.Method {
	t := reflect.TypeOf(obj)
	var ms []reflect.Method
	for i := 0; i < t.NumMethod(); i++ {
		ms = append(ms, t.Method(i))
	}
	sort.Slice(ms, func(i, j int) bool { return ms[i].Name < ms[j].Name })
	return ms
}

// QueueLen reads the number of queued elements of a RequestQueue / RequestDoubleQueue straight from
// its private lists, without calling any method of the queue: harness predicates (the Enabled
// function of a scheduler operation) run on the scheduler's goroutine and must not take locks.
func QueueLen(q interface{}) int {
	v := reflect.ValueOf(q)
	for v.Kind() == reflect.Ptr {
		v = v.Elem()
	}
	n := 0
	for _, name := range []string{"queue", "queue1", "queue2"} {
		f := v.FieldByName(name)
		if !f.IsValid() {
			continue
		}
		for f.Kind() == reflect.Ptr {
			f = f.Elem()
		}
		n += int(f.FieldByName("size").Int())
	}
	return n
}
