package coll

import (
	"fmt"
	"reflect"
	"sort"
	"strings"
)

// Exp is what the reference model allows as the canonical result string of an operation.
type Exp struct {
	Alts []string // exact alternatives
	None bool     // any of the type's "nothing" values is acceptable
	Any  bool     // not judged (must still not panic)
}

func exact(s string) Exp     { return Exp{Alts: []string{s}} }
func oneof(s ...string) Exp  { return Exp{Alts: s} }
func none() Exp              { return Exp{None: true} }
func noneOr(s ...string) Exp { return Exp{Alts: s, None: true} }
func anyNoPanic() Exp        { return Exp{Any: true} }
func boolS(b bool) string    { return map[bool]string{true: "true", false: "false"}[b] }
func (e Exp) String() string {
	var p []string
	p = append(p, e.Alts...)
	if e.None {
		p = append(p, "<none>")
	}
	if e.Any {
		p = append(p, "<any, no panic>")
	}
	return strings.Join(p, " or ")
}

type mentry struct {
	k  reflect.Value
	ks string
	v  reflect.Value
}

// Dict is the reference model: an insertion-ordered dictionary (slice of pairs) with an optional
// maximum size. For the unordered families the order is ignored by the comparison, not by the model.
type Dict struct {
	D       *Desc
	Ents    []mentry
	Max     int
	NoneVal string // formatted configured NONE ("" = not configured)
	// Unjudged collects method names the model does not know (reported, never guessed).
	Unjudged map[string]bool
}

func NewDict(d *Desc) *Dict { return &Dict{D: d, Unjudged: map[string]bool{}} }

// Key is a canonical rendering of the model state.
func (m *Dict) Key() string {
	return m.seq("{", "}", func(e mentry) string { return e.ks + "=" + FmtVal(e.v) }) + fmt.Sprintf("/max=%d/none=%s", m.Max, m.NoneVal)
}

func (m *Dict) isSet() bool { return m.D.ValT == nil }

func (m *Dict) find(ks string) int {
	for i, e := range m.Ents {
		if e.ks == ks {
			return i
		}
	}
	return -1
}

func (m *Dict) removeAt(i int) mentry {
	e := m.Ents[i]
	m.Ents = append(m.Ents[:i:i], m.Ents[i+1:]...)
	return e
}

// IsNone says whether a result string is one of the type's "nothing" values.
func (m *Dict) IsNone(res string) bool {
	return res == "nil" || res == `""` || res == "0" || (m.NoneVal != "" && res == m.NoneVal)
}

// Match checks an implementation result against an expectation.
func (m *Dict) Match(e Exp, res string) bool {
	if strings.HasPrefix(res, "panic:") {
		return false
	}
	if e.Any {
		return true
	}
	for _, a := range e.Alts {
		if a == res {
			return true
		}
	}
	if m.D.Family == "map" || m.D.Family == "set" {
		// unordered families: enumerations and arrays compare as multisets
		for _, a := range e.Alts {
			if isSeq(a) && isSeq(res) && sortSeq(a) == sortSeq(res) {
				return true
			}
		}
	}
	return e.None && m.IsNone(res)
}

func isSeq(s string) bool {
	return len(s) >= 2 && (s[0] == '<' && s[len(s)-1] == '>' || s[0] == '[' && s[len(s)-1] == ']')
}

func sortSeq(s string) string {
	toks := strings.Fields(s[1 : len(s)-1])
	sort.Strings(toks)
	return strings.Join(toks, " ")
}

func addVals(t reflect.Type, a, b reflect.Value) reflect.Value {
	out := reflect.New(t).Elem()
	switch t.Kind() {
	case reflect.Int32, reflect.Int64:
		out.SetInt(a.Int() + b.Int())
	case reflect.Float32:
		out.SetFloat(float64(float32(a.Float()) + float32(b.Float())))
	default:
		return b
	}
	return out
}

const (
	mLast = iota
	mForceLast
	mForceFirst
)

func (m *Dict) nullKey(k reflect.Value) bool {
	return m.D.NullKey && k.Kind() == reflect.String && k.String() == ""
}

func (m *Dict) evict(mode int) {
	if m.Max <= 0 {
		return
	}
	for len(m.Ents) >= m.Max && len(m.Ents) > 0 {
		if mode == mForceFirst {
			m.removeAt(len(m.Ents) - 1)
		} else {
			m.removeAt(0)
		}
	}
}

func (m *Dict) insert(e mentry, mode int) {
	if mode == mForceFirst {
		m.Ents = append([]mentry{e}, m.Ents...)
	} else {
		m.Ents = append(m.Ents, e)
	}
}

func (m *Dict) move(i int, mode int) {
	if mode == mLast {
		return
	}
	e := m.removeAt(i)
	m.insert(e, mode)
}

func modeOf(method string) int {
	switch {
	case strings.HasSuffix(method, "First"):
		return mForceFirst
	case strings.HasSuffix(method, "Last"):
		return mForceLast
	}
	return mLast
}

func (m *Dict) seq(open, close string, f func(e mentry) string) string {
	parts := make([]string, len(m.Ents))
	for i, e := range m.Ents {
		parts[i] = f(e)
	}
	return open + strings.Join(parts, " ") + close
}

// Apply runs op on the model and returns what the implementation may answer.
// known=false means the model has no opinion on this method (the caller must not use it as a
// transition).
func (m *Dict) Apply(op Op) (exp Exp, known bool) {
	d := m.D
	a := op.Args
	known = true
	switch op.Method {
	case "Put", "PutFirst", "PutLast", "Unipoint":
		mode := modeOf(op.Method)
		k := a[0]
		ks := FmtVal(k)
		if m.nullKey(k) {
			return none(), true
		}
		if m.isSet() {
			i := m.find(ks)
			rt := reflect.Bool
			_ = rt
			if i >= 0 {
				if d.Linked {
					m.move(i, mode)
				}
				// present: interned key, or "false" for the boolean convention
				return oneof(ks, "false"), true
			}
			if d.Linked {
				m.evict(mode)
			}
			m.insert(mentry{k: k, ks: ks}, mode)
			return noneOr(ks, "true"), true
		}
		v := a[1]
		if i := m.find(ks); i >= 0 {
			old := m.Ents[i].v
			m.Ents[i].v = v
			if d.Linked {
				m.move(i, mode)
			}
			return exact(FmtVal(old)), true
		}
		if d.Linked {
			m.evict(mode)
		}
		m.insert(mentry{k: k, ks: ks, v: v}, mode)
		return none(), true
	case "Add", "AddFirst", "AddLast", "AddNoOver", "AddIfExist":
		mode := modeOf(op.Method)
		k, v := a[0], a[1]
		ks := FmtVal(k)
		if m.nullKey(k) {
			return none(), true
		}
		if i := m.find(ks); i >= 0 {
			old := m.Ents[i].v
			nv := addVals(d.ValT, old, v)
			m.Ents[i].v = nv
			if d.Linked {
				m.move(i, mode)
			}
			// which of old/new is returned is a per-type convention the property leaves open
			return oneof(FmtVal(old), FmtVal(nv)), true
		}
		if op.Method == "AddIfExist" {
			return none(), true
		}
		if op.Method == "AddNoOver" {
			if m.Max > 0 && len(m.Ents) >= m.Max {
				return none(), true
			}
		} else if d.Linked {
			m.evict(mode)
		}
		m.insert(mentry{k: k, ks: ks, v: v}, mode)
		return noneOr(FmtVal(v)), true
	case "Get", "GetLRU":
		ks := FmtVal(a[0])
		if i := m.find(ks); i >= 0 && !m.nullKey(a[0]) {
			v := m.Ents[i].v
			if op.Method == "GetLRU" {
				m.move(i, mForceLast)
			}
			return exact(FmtVal(v)), true
		}
		return none(), true
	case "ContainsKey", "Contains", "HasKey":
		return exact(boolS(m.find(FmtVal(a[0])) >= 0 && !m.nullKey(a[0]))), true
	case "ContainsValue":
		vs := FmtVal(a[0])
		for _, e := range m.Ents {
			if FmtVal(e.v) == vs {
				return exact("true"), true
			}
		}
		return exact("false"), true
	case "Remove":
		ks := FmtVal(a[0])
		if i := m.find(ks); i >= 0 && !m.nullKey(a[0]) {
			e := m.removeAt(i)
			if m.isSet() {
				return oneof(ks, "true"), true
			}
			return exact(FmtVal(e.v)), true
		}
		if m.isSet() {
			return noneOr("false"), true
		}
		return none(), true
	case "RemoveFirst", "RemoveLast":
		if len(m.Ents) == 0 {
			return none(), true
		}
		i := 0
		if op.Method == "RemoveLast" {
			i = len(m.Ents) - 1
		}
		e := m.removeAt(i)
		if m.isSet() {
			return exact(e.ks), true
		}
		return exact(FmtVal(e.v)), true
	case "Clear":
		m.Ents = nil
		return exact("-"), true
	case "SetMax":
		m.Max = int(a[0].Int())
		return exact("self"), true
	case "SetNullValue":
		m.NoneVal = FmtVal(a[0])
		return exact("self"), true
	case "Size":
		return exact(FmtVal(reflect.ValueOf(len(m.Ents)))), true
	case "IsEmpty":
		return exact(boolS(len(m.Ents) == 0)), true
	case "IsFull":
		return exact(boolS(m.Max > 0 && m.Max <= len(m.Ents))), true
	case "KeyArray", "GetArray":
		return exact(m.seq("[", "]", func(e mentry) string { return e.ks })), true
	case "ValueArray":
		return exact(m.seq("[", "]", func(e mentry) string { return FmtVal(e.v) })), true
	case "Keys":
		return exact(m.seq("<", ">", func(e mentry) string { return e.ks })), true
	case "Values":
		if m.isSet() {
			return exact(m.seq("<", ">", func(e mentry) string { return e.ks })), true
		}
		// value enumeration may yield the values or the entries carrying them (the string-keyed
		// numeric maps do the latter through the untyped Enumeration); the order is what is judged
		return oneof(m.seq("<", ">", func(e mentry) string { return FmtVal(e.v) }), m.seq("<", ">", func(e mentry) string { return e.ks + "=" + FmtVal(e.v) })), true
	case "Entries":
		if m.isSet() {
			return exact(m.seq("<", ">", func(e mentry) string { return e.ks })), true
		}
		return exact(m.seq("<", ">", func(e mentry) string { return e.ks + "=" + FmtVal(e.v) })), true
	case "GetFirstKey", "GetFirst", "GetLastKey", "GetLast", "GetFirstValue", "GetLastValue":
		if len(m.Ents) == 0 {
			return anyNoPanic(), true // the property does not define first/last of an empty structure
		}
		e := m.Ents[0]
		if strings.Contains(op.Method, "Last") {
			e = m.Ents[len(m.Ents)-1]
		}
		if strings.HasSuffix(op.Method, "Value") {
			return exact(FmtVal(e.v)), true
		}
		return exact(e.ks), true
	case "Sort":
		if !d.Linked {
			return exact("-"), true // unordered: must leave the content equal
		}
		cmp := a[0]
		sort.SliceStable(m.Ents, func(i, j int) bool {
			return cmp.Call([]reflect.Value{toParam(cmp.Type().In(0), m.Ents[i].k), toParam(cmp.Type().In(1), m.Ents[j].k)})[0].Bool()
		})
		return exact("-"), true
	case "PutAll":
		arg := a[0]
		if arg.Kind() == reflect.Slice {
			for i := 0; i < arg.Len(); i++ {
				m.Apply(MkOp("Put", arg.Index(i)))
			}
			return exact("-"), true
		}
		if arg.Kind() == reflect.Ptr && !arg.IsNil() && arg.MethodByName("KeyArray").IsValid() && arg.MethodByName("Get").IsValid() {
			// another map of the same type: read it through its own accessors
			ks := arg.MethodByName("KeyArray").Call(nil)[0]
			for i := 0; i < ks.Len(); i++ {
				v := arg.MethodByName("Get").Call([]reflect.Value{ks.Index(i)})[0]
				if v.Kind() == reflect.Interface && !v.IsNil() {
					v = v.Elem()
				}
				m.Apply(MkOp("Put", ks.Index(i), v))
			}
			return exact("-"), true
		}
		return Exp{}, false
	case "ToString", "ToFormatString":
		return anyNoPanic(), true
	}
	m.Unjudged[op.Method] = true
	return Exp{}, false
}

func toParam(pt reflect.Type, v reflect.Value) reflect.Value {
	if v.Type() == pt {
		return v
	}
	if pt.Kind() == reflect.Interface {
		nv := reflect.New(pt).Elem()
		nv.Set(v)
		return nv
	}
	return v.Convert(pt)
}
