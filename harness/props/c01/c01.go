// Package c01 decides C01: the primitive stream codec is lossless, canonical and big-endian —
// bounded exhaustive enumeration (E3) of values per primitive and of short write programs, against
// the independent reference encoder (refenc).
package c01

import (
	"bytes"
	"encoding/binary"
	"fmt"
	"math"
	"reflect"
	"strings"
	"sync/atomic"

	"verif/engine/enum"
	"verif/engine/evid"
	"verif/refenc"

	gio "github.com/whatap/golib/io"
)

// wop is one write operation with a concrete argument, its reference encoding and matching read.
type wop struct {
	name  string
	write func(o *gio.DataOutputX)
	ref   func(b *refenc.B)
	read  func(in *gio.DataInputX) interface{}
	want  interface{}
}

func bitsEq(a, b interface{}) bool {
	switch x := a.(type) {
	case float32:
		y, ok := b.(float32)
		return ok && math.Float32bits(x) == math.Float32bits(y)
	case float64:
		y, ok := b.(float64)
		return ok && math.Float64bits(x) == math.Float64bits(y)
	case []float32:
		y, ok := b.([]float32)
		if !ok || len(x) != len(y) {
			return false
		}
		for i := range x {
			if math.Float32bits(x[i]) != math.Float32bits(y[i]) {
				return false
			}
		}
		return true
	case []float64:
		y, ok := b.([]float64)
		if !ok || len(x) != len(y) {
			return false
		}
		for i := range x {
			if math.Float64bits(x[i]) != math.Float64bits(y[i]) {
				return false
			}
		}
		return true
	case []byte:
		y, ok := b.([]byte)
		return ok && bytes.Equal(x, y) // nil == empty
	}
	ra, rb := reflect.ValueOf(a), reflect.ValueOf(b)
	if ra.Kind() == reflect.Slice && rb.Kind() == reflect.Slice && ra.Len() == 0 && rb.Len() == 0 {
		return ra.Type() == rb.Type() // nil and empty arrays are the same value on the wire
	}
	return reflect.DeepEqual(a, b)
}

type runner struct {
	c       *evid.Ctx
	evals   int64
	nontriv int64
}

func short(v interface{}) string {
	s := fmt.Sprintf("%v", v)
	if len(s) > 80 {
		s = s[:80] + "…"
	}
	return s
}

// checkProgram writes the operations in order and reads them back; returns a violation text or "".
func checkProgram(ops []wop) (key, msg string) {
	defer func() {
		if r := recover(); r != nil {
			key, msg = "panic", fmt.Sprintf("panic: %v", r)
		}
	}()
	out := gio.NewDataOutputX()
	var ref refenc.B
	for i, o := range ops {
		o.write(out)
		o.ref(&ref)
		if out.Size() != len(ref) {
			return o.name + ":size", fmt.Sprintf("after op %d (%s %s) Size()=%d but %d bytes are expected", i, o.name, short(o.want), out.Size(), len(ref))
		}
	}
	got := out.ToByteArray()
	if !bytes.Equal(got, ref) {
		return progName(ops) + ":bytes", fmt.Sprintf("bytes %x differ from the reference encoding %x", clip(got), clip(ref))
	}
	in := gio.NewDataInputX(append([]byte{}, got...))
	var consumed refenc.B
	vals := make([]interface{}, len(ops))
	for i, o := range ops {
		v := o.read(in)
		vals[i] = v
		if !bitsEq(v, o.want) {
			return o.name + ":value", fmt.Sprintf("op %d (%s) read back %s, written %s", i, o.name, short(v), short(o.want))
		}
		o.ref(&consumed)
		if int(in.Available()) != len(ref)-len(consumed) {
			return o.name + ":consumed", fmt.Sprintf("after reading op %d (%s) Available()=%d, expected %d", i, o.name, in.Available(), len(ref)-len(consumed))
		}
	}
	if in.Available() != 0 {
		return progName(ops) + ":available", fmt.Sprintf("Available()=%d after the last read", in.Available())
	}
	// a value handed to the caller stays what it was: later reads on the same input must not change it
	for i, o := range ops {
		if !bitsEq(vals[i], o.want) {
			return o.name + ":value-changed-by-later-read", fmt.Sprintf("op %d (%s) read back %s correctly, but after the remaining reads the returned value is %s", i, o.name, short(o.want), short(vals[i]))
		}
	}
	return "", ""
}

func progName(ops []wop) string {
	if len(ops) == 1 {
		return ops[0].name
	}
	var n []string
	for _, o := range ops {
		n = append(n, o.name)
	}
	return strings.Join(n, "+")
}

func clip(b []byte) []byte {
	if len(b) > 48 {
		return b[:48]
	}
	return b
}

func (r *runner) one(o wop, nontrivial bool) {
	atomic.AddInt64(&r.evals, 1)
	if nontrivial {
		atomic.AddInt64(&r.nontriv, 1)
	}
	if k, m := checkProgram([]wop{o}); k != "" {
		r.c.Violation("C01:"+k, fmt.Sprintf("%s(%s): %s", o.name, short(o.want), m), map[string]interface{}{"engine": "E3", "op": o.name, "value": short(o.want)})
	}
}

// ---- constructors of operations --------------------------------------------------------------------

func opBool(v bool) wop {
	return wop{"WriteBool", func(o *gio.DataOutputX) { o.WriteBool(v) }, func(b *refenc.B) { b.Bool(v) }, func(in *gio.DataInputX) interface{} { return in.ReadBool() }, v}
}
func opByte(v byte) wop {
	return wop{"WriteByte", func(o *gio.DataOutputX) { o.WriteByte(v) }, func(b *refenc.B) { b.U8(v) }, func(in *gio.DataInputX) interface{} { return in.ReadByte() }, v}
}
func opShort(v int16) wop {
	return wop{"WriteShort", func(o *gio.DataOutputX) { o.WriteShort(v) }, func(b *refenc.B) { b.I16(v) }, func(in *gio.DataInputX) interface{} { return in.ReadShort() }, v}
}
func opUShort(v uint16) wop {
	return wop{"WriteUShort", func(o *gio.DataOutputX) { o.WriteUShort(v) }, func(b *refenc.B) { b.U16(v) }, func(in *gio.DataInputX) interface{} { return in.ReadUShort() }, v}
}
func opUShortViaUnsigned(v uint16) wop {
	return wop{"WriteUShort/ReadUnsignedShort", func(o *gio.DataOutputX) { o.WriteUShort(v) }, func(b *refenc.B) { b.U16(v) }, func(in *gio.DataInputX) interface{} { return in.ReadUnsignedShort() }, v}
}
func opInt3(v int32) wop {
	return wop{"WriteInt3", func(o *gio.DataOutputX) { o.WriteInt3(v) }, func(b *refenc.B) { b.I24(v) }, func(in *gio.DataInputX) interface{} { return in.ReadInt3() }, v}
}
func opInt(v int32) wop {
	return wop{"WriteInt", func(o *gio.DataOutputX) { o.WriteInt(v) }, func(b *refenc.B) { b.I32(v) }, func(in *gio.DataInputX) interface{} { return in.ReadInt() }, v}
}
func opUint(v uint32) wop {
	return wop{"WriteInt/ReadUnsignedInt", func(o *gio.DataOutputX) { o.WriteInt(int32(v)) }, func(b *refenc.B) { b.U32(v) }, func(in *gio.DataInputX) interface{} { return in.ReadUnsignedInt() }, v}
}
func opLong5(v int64) wop {
	return wop{"WriteLong5", func(o *gio.DataOutputX) { o.WriteLong5(v) }, func(b *refenc.B) { b.I40(v) }, func(in *gio.DataInputX) interface{} { return in.ReadLong5() }, v}
}
func opLong(v int64) wop {
	return wop{"WriteLong", func(o *gio.DataOutputX) { o.WriteLong(v) }, func(b *refenc.B) { b.I64(v) }, func(in *gio.DataInputX) interface{} { return in.ReadLong() }, v}
}
func opFloat(v float32) wop {
	return wop{"WriteFloat", func(o *gio.DataOutputX) { o.WriteFloat(v) }, func(b *refenc.B) { b.F32(v) }, func(in *gio.DataInputX) interface{} { return in.ReadFloat() }, v}
}
func opDouble(v float64) wop {
	return wop{"WriteDouble", func(o *gio.DataOutputX) { o.WriteDouble(v) }, func(b *refenc.B) { b.F64(v) }, func(in *gio.DataInputX) interface{} { return in.ReadDouble() }, v}
}
func opDecimal(v int64) wop {
	return wop{"WriteDecimal", func(o *gio.DataOutputX) { o.WriteDecimal(v) }, func(b *refenc.B) { b.Dec(v) }, func(in *gio.DataInputX) interface{} { return in.ReadDecimal() }, v}
}
func opDecimalLen(v int64) wop {
	// reader variant that is handed the length byte separately
	return wop{"WriteDecimal/ReadDecimalLen", func(o *gio.DataOutputX) { o.WriteDecimal(v) }, func(b *refenc.B) { b.Dec(v) }, func(in *gio.DataInputX) interface{} {
		n := in.ReadByte()
		return in.ReadDecimalLen(int(n))
	}, v}
}
func opBlob(v []byte) wop {
	return wop{"WriteBlob", func(o *gio.DataOutputX) { o.WriteBlob(v) }, func(b *refenc.B) { b.Blob(v) }, func(in *gio.DataInputX) interface{} { return in.ReadBlob() }, v}
}
func opText(v string) wop {
	return wop{"WriteText", func(o *gio.DataOutputX) { o.WriteText(v) }, func(b *refenc.B) { b.Text(v) }, func(in *gio.DataInputX) interface{} { return in.ReadText() }, v}
}
func opTextShort(v string) wop {
	return wop{"WriteTextShortLength", func(o *gio.DataOutputX) { o.WriteTextShortLength(v) }, func(b *refenc.B) { b.TextShort(v) }, func(in *gio.DataInputX) interface{} { return in.ReadTextShortLength() }, v}
}
func opShortBytes(v []byte) wop {
	return wop{"WriteShortBytes", func(o *gio.DataOutputX) { o.WriteShortBytes(v) }, func(b *refenc.B) { b.ShortBytes(v) }, func(in *gio.DataInputX) interface{} { return in.ReadShortBytes() }, v}
}
func opIntBytes(v []byte) wop {
	return wop{"WriteIntBytes", func(o *gio.DataOutputX) { o.WriteIntBytes(v) }, func(b *refenc.B) { b.IntBytes(v) }, func(in *gio.DataInputX) interface{} { return in.ReadIntBytes() }, v}
}

// opIntBytesLimit reads the int-length bytes back with the size-limited reader, the limit being the
// payload length plus slack (a payload of exactly the limit is within it).
func opIntBytesLimit(v []byte, slack int) wop {
	return wop{fmt.Sprintf("WriteIntBytes/ReadIntBytesLimit(len+%d)", slack), func(o *gio.DataOutputX) { o.WriteIntBytes(v) }, func(b *refenc.B) { b.IntBytes(v) }, func(in *gio.DataInputX) interface{} { return in.ReadIntBytesLimit(len(v) + slack) }, v}
}
func opBytes(v []byte) wop {
	return wop{"WriteBytes", func(o *gio.DataOutputX) { o.WriteBytes(v) }, func(b *refenc.B) { b.Raw(v) }, func(in *gio.DataInputX) interface{} { return in.ReadBytes(int32(len(v))) }, v}
}
func opWriteOff(buf []byte, off, sz int) wop {
	v := buf[off : off+sz]
	return wop{"Write(b,off,sz)", func(o *gio.DataOutputX) { o.Write(buf, off, sz) }, func(b *refenc.B) { b.Raw(v) }, func(in *gio.DataInputX) interface{} { return in.ReadBytes(int32(sz)) }, v}
}
func opShortArr(v []int16) wop {
	return wop{"WriteShortArray", func(o *gio.DataOutputX) { o.WriteShortArray(v) }, func(b *refenc.B) { b.ArrI16(v) }, func(in *gio.DataInputX) interface{} { return in.ReadShortArray() }, v}
}
func opIntArr(v []int32) wop {
	return wop{"WriteIntArray", func(o *gio.DataOutputX) { o.WriteIntArray(v) }, func(b *refenc.B) { b.ArrI32(v) }, func(in *gio.DataInputX) interface{} { return in.ReadIntArray() }, v}
}
func opLongArr(v []int64) wop {
	return wop{"WriteLongArray", func(o *gio.DataOutputX) { o.WriteLongArray(v) }, func(b *refenc.B) { b.ArrI64(v) }, func(in *gio.DataInputX) interface{} { return in.ReadLongArray() }, v}
}
func opFloatArr(v []float32) wop {
	return wop{"WriteFloatArray", func(o *gio.DataOutputX) { o.WriteFloatArray(v) }, func(b *refenc.B) { b.ArrF32(v) }, func(in *gio.DataInputX) interface{} { return in.ReadFloatArray() }, v}
}
func opDoubleArr(v []float64) wop {
	return wop{"WriteDoubleArray", func(o *gio.DataOutputX) { o.WriteDoubleArray(v) }, func(b *refenc.B) { b.ArrF64(v) }, func(in *gio.DataInputX) interface{} { return in.ReadDoubleArray() }, v}
}
func opTextArr(v []string) wop {
	return wop{"WriteTextArray", func(o *gio.DataOutputX) { o.WriteTextArray(v) }, func(b *refenc.B) { b.ArrText(v) }, func(in *gio.DataInputX) interface{} { return in.ReadTextArray() }, v}
}

func content(kind string, n int) []byte {
	b := make([]byte, n)
	switch kind {
	case "ff":
		for i := range b {
			b[i] = 0xff
		}
	case "count":
		for i := range b {
			b[i] = byte(i*7 + 1)
		}
	}
	return b
}

func utf8Text(n int) string {
	// multi-byte characters; n is the byte length
	var sb strings.Builder
	for sb.Len()+3 <= n {
		sb.WriteString("한")
	}
	for sb.Len() < n {
		sb.WriteByte('a')
	}
	return sb.String()
}

// ---- parts -----------------------------------------------------------------------------------------

func (r *runner) fullRanges(thorough bool) {
	r.one(opBool(true), true)
	r.one(opBool(false), false)
	for v := 0; v < 256; v++ {
		r.one(opByte(byte(v)), v != 0)
	}
	enum.ParallelRange(1<<16, func(lo, hi uint64) {
		for v := lo; v < hi; v++ {
			r.one(opShort(int16(uint16(v))), v != 0)
			r.one(opUShort(uint16(v)), v != 0)
			r.one(opUShortViaUnsigned(uint16(v)), v != 0)
		}
	})
	// every 24-bit pattern (sign-extended: the domain of the 3-byte integer)
	enum.ParallelRange(1<<24, func(lo, hi uint64) {
		for v := lo; v < hi; v++ {
			x := int32(uint32(v)<<8) >> 8
			r.one(opInt3(x), v != 0)
		}
	})
	if thorough {
		enum.ParallelRange(1<<32, func(lo, hi uint64) {
			for v := lo; v < hi; v++ {
				r.one(opInt(int32(uint32(v))), v != 0)
				r.one(opFloat(math.Float32frombits(uint32(v))), v != 0)
				r.one(opDecimal(int64(int32(uint32(v)))), v != 0)
			}
		})
		// dense bands (2^22 patterns at either end of the low word) under five high words: both sides
		// of each decimal class border of the 40- and 64-bit domains. (A full 2^32 sweep per high word
		// was tried: 24 G evaluations, over two hours on this machine, for no border that the bands
		// do not contain.)
		const band = 1 << 22
		for _, hw := range []uint64{0x00000000, 0x0000007f, 0xffffff80, 0x7fffffff, 0x80000000} {
			hw := hw
			enum.ParallelRange(2*band, func(lo, hi uint64) {
				for i := lo; i < hi; i++ {
					v := i
					if i >= band {
						v = (1 << 32) - 2*band + i
					}
					x := int64(hw<<32 | v)
					r.one(opDecimal(x), true)
					r.one(opLong(x), true)
					r.one(opLong5((x<<24)>>24), true)
				}
			})
		}
	} else {
		// quick: 32-bit domains by boundary alphabet plus a dense band around every decimal border
		for _, v := range enum.Int32Boundaries() {
			r.one(opInt(v), v != 0)
			r.one(opUint(uint32(v)), v != 0)
		}
		for _, bv := range enum.Float32Bits() {
			r.one(opFloat(math.Float32frombits(bv)), bv != 0)
		}
		for _, b := range []int64{0, math.MaxInt8, math.MinInt8, math.MaxInt16, math.MinInt16, 0x7fffff, -0x800000, math.MaxInt32, math.MinInt32, 0x7fffffffff, -0x8000000000} {
			for d := int64(-300); d <= 300; d++ {
				r.one(opDecimal(b+d), true)
				r.one(opDecimalLen(b+d), true)
			}
		}
	}
	for _, v := range enum.Int64Boundaries() {
		r.one(opLong(v), v != 0)
		r.one(opDecimal(v), v != 0)
		r.one(opDecimalLen(v), v != 0)
		if v >= -0x8000000000 && v <= 0x7fffffffff {
			r.one(opLong5(v), v != 0)
		}
	}
	for _, bv := range enum.Float64Bits() {
		r.one(opDouble(math.Float64frombits(bv)), bv != 0)
	}
}

func (r *runner) blobs() {
	lens := []int{0, 1, 2, 252, 253, 254, 255, 256, 32767, 32768, 65534, 65535, 65536, 65537, 70000}
	for _, n := range lens {
		for _, kind := range []string{"zero", "ff", "count"} {
			b := content(kind, n)
			r.one(opBlob(b), n > 0)
			r.one(opIntBytes(b), n > 0)
			for _, slack := range []int{0, 1, 1 << 20} {
				r.one(opIntBytesLimit(b, slack), n > 0)
			}
			r.one(opBytes(b), n > 0)
			if n <= 65535 {
				r.one(opShortBytes(b), n > 0)
			}
			r.one(opText(string(b)), n > 0)
		}
		r.one(opText(utf8Text(n)), n > 0)
		if n <= 65535 {
			r.one(opTextShort(utf8Text(n)), n > 0)
		}
	}
	r.one(opBlob(nil), false)
	r.one(opIntBytes(nil), false)
	r.one(opShortBytes(nil), false)
	buf := content("count", 300)
	for _, c := range [][2]int{{0, 0}, {0, 1}, {1, 2}, {299, 1}, {0, 300}, {5, 254}} {
		r.one(opWriteOff(buf, c[0], c[1]), c[1] > 0)
	}
}

func (r *runner) arrays() {
	lens := []int{-1, 0, 1, 2, 255, 256, 32767}
	i32 := enum.Int32Boundaries()
	i64 := enum.Int64Boundaries()
	f32 := enum.Float32Bits()
	f64 := enum.Float64Bits()
	for _, n := range lens {
		if n < 0 {
			r.one(opShortArr(nil), false)
			r.one(opIntArr(nil), false)
			r.one(opLongArr(nil), false)
			r.one(opFloatArr(nil), false)
			r.one(opDoubleArr(nil), false)
			r.one(opTextArr(nil), false)
			continue
		}
		// zero array, then one deviating element at first / middle / last position over the alphabets
		positions := []int{0, n / 2, n - 1}
		if n == 0 {
			positions = nil
		}
		r.one(opShortArr(make([]int16, n)), n > 0)
		r.one(opIntArr(make([]int32, n)), n > 0)
		r.one(opLongArr(make([]int64, n)), n > 0)
		r.one(opFloatArr(make([]float32, n)), n > 0)
		r.one(opDoubleArr(make([]float64, n)), n > 0)
		r.one(opTextArr(make([]string, n)), n > 0)
		stride := 1
		if n > 300 {
			stride = 16 // big arrays: every 16th alphabet value per position
		}
		for _, p := range positions {
			for k := 0; k < len(i32); k += stride {
				a := make([]int32, n)
				a[p] = i32[k]
				r.one(opIntArr(a), true)
				s := make([]int16, n)
				s[p] = int16(i32[k])
				r.one(opShortArr(s), true)
			}
			for k := 0; k < len(i64); k += stride {
				a := make([]int64, n)
				a[p] = i64[k]
				r.one(opLongArr(a), true)
			}
			for k := 0; k < len(f32); k += stride {
				a := make([]float32, n)
				a[p] = math.Float32frombits(f32[k])
				r.one(opFloatArr(a), true)
			}
			for k := 0; k < len(f64); k += stride {
				a := make([]float64, n)
				a[p] = math.Float64frombits(f64[k])
				r.one(opDoubleArr(a), true)
			}
			for _, s := range []string{"a", utf8Text(253), utf8Text(254), utf8Text(300)} {
				a := make([]string, n)
				a[p] = s
				r.one(opTextArr(a), true)
			}
		}
	}
}

func (r *runner) littleEndian(thorough bool) {
	c := r.c
	bad := func(name string, in []byte, got, want interface{}) {
		c.Violation("C01:"+name+":little-endian", fmt.Sprintf("%s(% x) = %v, the byte-reversed layout decodes to %v", name, in, got, want), map[string]interface{}{"helper": name, "bytes": fmt.Sprintf("%x", in)})
	}
	enum.ParallelRange(1<<16, func(lo, hi uint64) {
		for v := lo; v < hi; v++ {
			for _, pos := range []int{0, 3} {
				buf := make([]byte, pos+2)
				binary.LittleEndian.PutUint16(buf[pos:], uint16(v))
				atomic.AddInt64(&r.evals, 4)
				atomic.AddInt64(&r.nontriv, 4)
				if g := gio.ToShortLittle(buf, pos); g != int16(uint16(v)) {
					bad("ToShortLittle", buf, g, int16(uint16(v)))
				}
				if g := gio.ToUshortLittle(buf, pos); g != uint16(v) {
					bad("ToUshortLittle", buf, g, uint16(v))
				}
				if pos == 0 {
					if g := gio.NewDataInputX(buf).ReadShortLittle(); g != int16(uint16(v)) {
						bad("ReadShortLittle", buf, g, int16(uint16(v)))
					}
					if g := gio.NewDataInputX(buf).ReadUnsignedShortLittle(); g != uint16(v) {
						bad("ReadUnsignedShortLittle", buf, g, uint16(v))
					}
				}
			}
		}
	})
	check32 := func(v uint32) {
		for _, pos := range []int{0, 3} {
			buf := make([]byte, pos+4)
			binary.LittleEndian.PutUint32(buf[pos:], v)
			atomic.AddInt64(&r.evals, 4)
			atomic.AddInt64(&r.nontriv, 4)
			if g := gio.ToIntLittle(buf, pos); g != int32(v) {
				bad("ToIntLittle", buf, g, int32(v))
			}
			if g := gio.ToUintLittle(buf, pos); g != v {
				bad("ToUintLittle", buf, g, v)
			}
			if pos == 0 {
				if g := gio.NewDataInputX(buf).ReadIntLittle(); g != int32(v) {
					bad("ReadIntLittle", buf, g, int32(v))
				}
				if g := gio.NewDataInputX(buf).ReadUintLittle(); g != v {
					bad("ReadUintLittle", buf, g, v)
				}
			}
		}
	}
	if thorough {
		enum.ParallelRange(1<<32, func(lo, hi uint64) {
			for v := lo; v < hi; v++ {
				check32(uint32(v))
			}
		})
	} else {
		for _, v := range enum.Int32Boundaries() {
			check32(uint32(v))
		}
	}
	for _, v := range enum.Int64Boundaries() {
		for _, pos := range []int{0, 3} {
			buf := make([]byte, pos+8)
			binary.LittleEndian.PutUint64(buf[pos:], uint64(v))
			atomic.AddInt64(&r.evals, 2)
			atomic.AddInt64(&r.nontriv, 2)
			if g := gio.ToLongLittle(buf, pos); g != v {
				bad("ToLongLittle", buf, g, v)
			}
			if g := gio.ToUlongLittle(buf, pos); g != uint64(v) {
				bad("ToUlongLittle", buf, g, uint64(v))
			}
		}
	}
}

func programAlphabet() []wop {
	return []wop{
		opBool(true), opByte(0x80), opShort(-2), opUShort(0xfffe), opInt3(-8388608), opInt(math.MinInt32), opLong5(0x7fffffffff), opLong(math.MinInt64),
		opFloat(float32(math.Inf(-1))), opDouble(math.Float64frombits(0x7ff0000000000001)), opDecimal(0), opDecimal(-129), opDecimal(8388608), opDecimal(1 << 40),
		opBlob(nil), opBlob(content("count", 254)), opText("한a"), opTextShort("xy"), opShortBytes([]byte{1, 2, 3}), opIntBytes([]byte{9}), opIntBytesLimit([]byte{7, 8}, 0),
		opShortArr([]int16{-1, 2}), opIntArr([]int32{1, -1}), opLongArr([]int64{math.MinInt64}), opFloatArr([]float32{1.5}), opTextArr([]string{"", "b"}),
		opWriteOff([]byte{1, 2, 3, 4, 5}, 1, 3),
	}
}

func (r *runner) programs(maxLen int) {
	alpha := programAlphabet()
	n := len(alpha)
	total := uint64(1)
	for l := 1; l <= maxLen; l++ {
		total *= uint64(n)
		cnt := total
		l := l
		enum.ParallelRange(cnt, func(lo, hi uint64) {
			ops := make([]wop, l)
			for idx := lo; idx < hi; idx++ {
				x := idx
				for i := l - 1; i >= 0; i-- {
					ops[i] = alpha[x%uint64(n)]
					x /= uint64(n)
				}
				atomic.AddInt64(&r.evals, 1)
				if l >= 2 {
					atomic.AddInt64(&r.nontriv, 1)
				}
				if k, m := checkProgram(ops); k != "" {
					r.c.Violation("C01:program:"+k, fmt.Sprintf("program %s: %s", progName(ops), m), map[string]interface{}{"engine": "E3", "program": progName(ops)})
				}
			}
		})
	}
	r.c.Count("programs", int64(total))
}

func Run(c *evid.Ctx) {
	r := &runner{c: c}
	r.fullRanges(c.Thorough())
	r.blobs()
	r.arrays()
	r.littleEndian(c.Thorough())
	pl := 3
	if c.Thorough() {
		pl = 4
	}
	r.programs(pl)
	r.netPath(2)
	r.statics()
	c.Count("evaluations", r.evals)
	c.Count("distinct_nontrivial", r.nontriv)
	c.Cov["rule"] = "one evaluation = one write program (1..n operations) encoded by golib, compared byte for byte with refenc, Size() checked after every write, read back in order with Available() checked after every read; non-trivial = value other than zero/empty/nil, or a program of two or more operations; values are enumerated without repetition"
	c.Sample(map[string]interface{}{"op": "WriteDecimal", "value": int64(8388608), "reference_bytes": "04 00 80 00 00"})
	c.Sample(map[string]interface{}{"op": "WriteInt3", "range": "all 2^24 patterns"})
	c.Sample(map[string]interface{}{"program": "WriteBool+WriteDecimal+WriteTextArray", "length_bound": pl, "alphabet": len(programAlphabet())})
	if !c.Thorough() {
		c.NotExhaustive("quick tier: 32-bit domains (int, uint, float) by boundary alphabet and dense bands around the decimal class borders; the thorough tier sweeps all 2^32 patterns")
	}
	c.Assume("64-bit domains are covered by boundary alphabets (±2^k, ±2^k±1, class borders ±2, walking bytes, every single NaN payload bit), not by ranges")
}
