package c01

import (
	"fmt"
	"io"
	"net"
	"sync/atomic"
	"time"

	"verif/engine/enum"
	"verif/refenc"

	gio "github.com/whatap/golib/io"
)

// fragConn is a net.Conn whose Read hands out the stream in fragments of enumerated sizes (the
// pattern is cycled); everything else is inert.
type fragConn struct {
	data    []byte
	pos     int
	pattern []int
	k       int
}

func (c *fragConn) Read(p []byte) (int, error) {
	if c.pos >= len(c.data) {
		return 0, io.EOF
	}
	n := c.pattern[c.k%len(c.pattern)]
	c.k++
	if n > len(p) {
		n = len(p)
	}
	if n > len(c.data)-c.pos {
		n = len(c.data) - c.pos
	}
	copy(p, c.data[c.pos:c.pos+n])
	c.pos += n
	return n, nil
}
func (c *fragConn) Write(p []byte) (int, error)        { return len(p), nil }
func (c *fragConn) Close() error                       { return nil }
func (c *fragConn) LocalAddr() net.Addr                { return nil }
func (c *fragConn) RemoteAddr() net.Addr               { return nil }
func (c *fragConn) SetDeadline(t time.Time) error      { return nil }
func (c *fragConn) SetReadDeadline(t time.Time) error  { return nil }
func (c *fragConn) SetWriteDeadline(t time.Time) error { return nil }

// fragPatterns: every sequence of length 1..3 over the fragment sizes (cycled while reading).
func fragPatterns() [][]int {
	sizes := []int{1, 2, 3, 7, 1 << 20}
	var out [][]int
	for _, a := range sizes {
		out = append(out, []int{a})
		for _, b := range sizes {
			out = append(out, []int{a, b})
			for _, c := range sizes {
				out = append(out, []int{a, b, c})
			}
		}
	}
	return out
}

// checkNet reads a program back through the network form of the input (NewDataInputNet) with the
// stream arriving in the given fragments: same values, in order, consuming exactly the bytes.
func checkNet(ops []wop, pattern []int) (key, msg string) {
	defer func() {
		if r := recover(); r != nil {
			key, msg = "panic", fmt.Sprintf("panic: %v", r)
		}
	}()
	var ref refenc.B
	for _, o := range ops {
		o.ref(&ref)
	}
	conn := &fragConn{data: append([]byte{}, ref...), pattern: pattern}
	in := gio.NewDataInputNet(conn)
	vals := make([]interface{}, len(ops))
	for i, o := range ops {
		vals[i] = o.read(in)
		if !bitsEq(vals[i], o.want) {
			return o.name + ":value", fmt.Sprintf("op %d (%s) read back %s, written %s", i, o.name, short(vals[i]), short(o.want))
		}
	}
	if conn.pos != len(conn.data) {
		return progName(ops) + ":consumed", fmt.Sprintf("%d of %d bytes were taken from the connection", conn.pos, len(conn.data))
	}
	for i, o := range ops {
		if !bitsEq(vals[i], o.want) {
			return o.name + ":value-changed-by-later-read", fmt.Sprintf("op %d (%s): the returned value changed after the remaining reads", i, o.name)
		}
	}
	return "", ""
}

func (r *runner) netPath(maxLen int) {
	alpha := programAlphabet()
	pats := fragPatterns()
	n := uint64(len(alpha))
	total := uint64(0)
	cnt := uint64(1)
	for l := 1; l <= maxLen; l++ {
		cnt *= n
		l, cnt := l, cnt
		total += cnt * uint64(len(pats))
		enum.ParallelRange(cnt, func(lo, hi uint64) {
			ops := make([]wop, l)
			for idx := lo; idx < hi; idx++ {
				x := idx
				for i := l - 1; i >= 0; i-- {
					ops[i] = alpha[x%n]
					x /= n
				}
				for _, p := range pats {
					atomic.AddInt64(&r.evals, 1)
					atomic.AddInt64(&r.nontriv, 1)
					if k, m := checkNet(ops, p); k != "" {
						r.c.Violation("C01:net:"+k, fmt.Sprintf("program %s read from a connection delivering fragments %v: %s", progName(ops), p, m), map[string]interface{}{"engine": "E3", "program": progName(ops), "fragments": p})
					}
				}
			}
		})
	}
	r.c.Count("net_path_reads", int64(total))
}
