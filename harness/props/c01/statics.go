package c01

import (
	"bytes"
	"encoding/binary"
	"fmt"
	"math"

	"verif/engine/enum"
	"verif/refenc"

	gio "github.com/whatap/golib/io"
)

// statics: the package-level packing helpers (SetBytes*/ToBytes* and To*) that the stream methods
// do not all go through, each against encoding/binary at an offset inside a larger buffer; and the
// decimal arrays (a decimal count followed by decimal elements), for which the library has readers only.
func (r *runner) statics() {
	viol := func(key, msg string) {
		r.c.Violation("C01:static:"+key, msg, map[string]interface{}{"engine": "E3"})
	}
	count := func(n int) {
		for i := 0; i < n; i++ {
			r.evals++
			r.nontriv++
		}
	}
	// booleans and unsigned shorts: every pattern
	for v := 0; v < 256; v++ {
		buf := []byte{0xaa, byte(v), 0xaa}
		if got := gio.ToBool(buf, 1); got != (v != 0) {
			viol("ToBool", fmt.Sprintf("ToBool(%#x) = %v", v, got))
		}
	}
	for _, b := range []bool{false, true} {
		buf := []byte{0xaa, 0xaa, 0xaa}
		gio.SetBytesBool(buf, 1, b)
		want := byte(0)
		if b {
			want = 1
		}
		if buf[0] != 0xaa || buf[2] != 0xaa || buf[1] != want {
			viol("SetBytesBool", fmt.Sprintf("SetBytesBool(%v) wrote % x", b, buf))
		}
	}
	count(258)
	for v := 0; v < 1<<16; v++ {
		buf := []byte{0xaa, byte(v >> 8), byte(v), 0xaa}
		if got := gio.ToUshort(buf, 1); got != uint16(v) {
			viol("ToUshort", fmt.Sprintf("ToUshort(% x) = %d, big-endian value is %d", buf[1:3], got, v))
			break
		}
	}
	count(1 << 16)
	// 48-bit helper, floats and doubles over the boundary alphabets
	for _, x := range enum.Int64Boundaries() {
		u := uint64(x) & 0xffffffffffff
		buf := []byte{0xaa, byte(u >> 40), byte(u >> 32), byte(u >> 24), byte(u >> 16), byte(u >> 8), byte(u), 0xaa}
		if got := gio.ToLong6(buf, 1); uint64(got) != u {
			viol("ToLong6", fmt.Sprintf("ToLong6(% x) = %#x, big-endian value is %#x", buf[1:7], got, u))
		}
		count(1)
	}
	for _, bv := range enum.Float32Bits() {
		buf := bytes.Repeat([]byte{0xaa}, 6)
		gio.SetBytesFloat(buf, 1, math.Float32frombits(bv))
		want := bytes.Repeat([]byte{0xaa}, 6)
		binary.BigEndian.PutUint32(want[1:], bv)
		if !bytes.Equal(buf, want) {
			viol("SetBytesFloat", fmt.Sprintf("SetBytesFloat(bits %#x) wrote % x, expected % x", bv, buf, want))
		}
		if got := gio.ToFloat(buf, 1); math.Float32bits(got) != bv {
			viol("ToFloat", fmt.Sprintf("ToFloat(% x) has bits %#x", buf[1:5], math.Float32bits(got)))
		}
		count(2)
	}
	for _, bv := range enum.Float64Bits() {
		buf := bytes.Repeat([]byte{0xaa}, 10)
		gio.SetBytesDouble(buf, 1, math.Float64frombits(bv))
		want := bytes.Repeat([]byte{0xaa}, 10)
		binary.BigEndian.PutUint64(want[1:], bv)
		if !bytes.Equal(buf, want) {
			viol("SetBytesDouble", fmt.Sprintf("SetBytesDouble(bits %#x) wrote % x, expected % x", bv, buf, want))
		}
		if got := gio.ToDouble(buf, 1); math.Float64bits(got) != bv {
			viol("ToDouble", fmt.Sprintf("ToDouble(% x) has bits %#x", buf[1:9], math.Float64bits(got)))
		}
		count(2)
	}
	// SetBytes / Get: every (position, length) in a 6-byte buffer
	for pos := 0; pos <= 6; pos++ {
		for n := 0; pos+n <= 6; n++ {
			src := []byte{1, 2, 3, 4, 5, 6}[:n]
			dst := bytes.Repeat([]byte{0xaa}, 6)
			gio.SetBytes(dst, pos, src)
			want := bytes.Repeat([]byte{0xaa}, 6)
			copy(want[pos:], src)
			if !bytes.Equal(dst, want) {
				viol("SetBytes", fmt.Sprintf("SetBytes(pos %d, %d bytes) gave % x", pos, n, dst))
			}
			if got := gio.Get(want, pos, n); !bytes.Equal(got, want[pos:pos+n]) {
				viol("Get", fmt.Sprintf("Get(pos %d, %d bytes) gave % x", pos, n, got))
			}
			count(2)
		}
	}
	// decimal arrays: count and elements across every decimal class
	elems := []int64{0, 1, -1, 127, 128, -129, 32767, 32768, 8388607, 8388608, math.MaxInt32, math.MinInt32, math.MaxInt32 + 1, 0x7fffffffff, 0x8000000000, math.MaxInt64, math.MinInt64}
	for n := 0; n <= 3; n++ {
		idx := make([]int, n)
		for {
			var ref refenc.B
			out := gio.NewDataOutputX()
			ref.Dec(int64(n))
			out.WriteDecimal(int64(n))
			vals := make([]int64, n)
			for i, k := range idx {
				vals[i] = elems[k]
				ref.Dec(vals[i])
				out.WriteDecimal(vals[i])
			}
			func() {
				defer func() {
					if p := recover(); p != nil {
						viol("ReadDecimalArray:panic", fmt.Sprintf("decimal array %v: %v", vals, p))
					}
				}()
				if !bytes.Equal(out.ToByteArray(), ref) {
					viol("WriteDecimal:bytes", fmt.Sprintf("decimal sequence %v: bytes % x differ from the reference % x", vals, out.ToByteArray(), []byte(ref)))
				}
				in := gio.NewDataInputX(append([]byte{}, ref...))
				got := in.ReadDecimalArray()
				if len(got) != n || in.Available() != 0 {
					viol("ReadDecimalArray", fmt.Sprintf("decimal array %v read back as %v with %d bytes left", vals, got, in.Available()))
				}
				for i := range got {
					if i < n && got[i] != vals[i] {
						viol("ReadDecimalArray", fmt.Sprintf("decimal array %v read back as %v", vals, got))
						break
					}
				}
				fits := true
				for _, v := range vals {
					if v != int64(int32(v)) {
						fits = false
					}
				}
				if fits {
					in2 := gio.NewDataInputX(append([]byte{}, ref...))
					g2 := in2.ReadDecimalArrayInt()
					ok := len(g2) == n && in2.Available() == 0
					for i := range g2 {
						if i < n && int64(g2[i]) != vals[i] {
							ok = false
						}
					}
					if !ok {
						viol("ReadDecimalArrayInt", fmt.Sprintf("decimal array %v read back as %v", vals, g2))
					}
				}
			}()
			count(1)
			// next index vector
			k := n - 1
			for k >= 0 {
				idx[k]++
				if idx[k] < len(elems) {
					break
				}
				idx[k] = 0
				k--
			}
			if k < 0 {
				break
			}
		}
	}
}
