// Package c13 decides C13: typed lists are faithful sequences (E2 over operation histories against
// a slice model), the linked list likewise, sorting yields an ordering permutation and filtering
// selects exactly the indexed elements (E3, exhaustive over small arrays).
package c13

import (
	"fmt"
	"math"
	"reflect"
	"sort"
	"strconv"
	"strings"
	"sync"
	"sync/atomic"

	"verif/engine/evid"
	"verif/engine/seqx"

	gio "github.com/whatap/golib/io"
	"github.com/whatap/golib/util/list"
)

const (
	kInt = iota
	kLong
	kFloat
	kDouble
	kString
)

var kindNames = []string{"IntList", "LongList", "FloatList", "DoubleList", "StringList"}

func newList(kind, capa int) list.AnyList {
	switch kind {
	case kInt:
		if capa < 0 {
			return list.NewIntListDefault()
		}
		return list.NewIntList(capa)
	case kLong:
		if capa < 0 {
			return list.NewLongListDefault()
		}
		return list.NewLongList(capa)
	case kFloat:
		if capa < 0 {
			return list.NewFloatListDefault()
		}
		return list.NewFloatList(capa)
	case kDouble:
		if capa < 0 {
			return list.NewDoubleListDefault()
		}
		return list.NewDoubleList(capa)
	default:
		if capa < 0 {
			return list.NewStringListDefault()
		}
		return list.NewStringList(capa)
	}
}

// opaqueNum is a number stored in a StringList through AddFloat/AddDouble: its text form is the
// implementation's choice; only "parses back to the number" is judged.
type opaqueNum struct{ v float64 }

// toElem converts an argument to the list's element type as Go's conversions do; ok=false means
// the call must panic.
func toElem(kind int, arg interface{}) (interface{}, bool) {
	switch kind {
	case kInt:
		switch a := arg.(type) {
		case int:
			return a, true
		case int64:
			return int(a), true
		case float32:
			return int(a), true
		case float64:
			return int(a), true
		case string:
			n, err := strconv.Atoi(a)
			return n, err == nil
		}
	case kLong:
		switch a := arg.(type) {
		case int:
			return int64(a), true
		case int64:
			return a, true
		case float32:
			return int64(a), true
		case float64:
			return int64(a), true
		case string:
			n, err := strconv.ParseInt(a, 10, 64)
			return n, err == nil
		}
	case kFloat:
		switch a := arg.(type) {
		case int:
			return float32(a), true
		case int64:
			return float32(a), true
		case float32:
			return a, true
		case float64:
			return float32(a), true
		case string:
			n, err := strconv.ParseFloat(a, 32)
			return float32(n), err == nil
		}
	case kDouble:
		switch a := arg.(type) {
		case int:
			return float64(a), true
		case int64:
			return float64(a), true
		case float32:
			return float64(a), true
		case float64:
			return a, true
		case string:
			// alphabet strings are exactly representable in 32 bits, so the parse width is not judged
			n, err := strconv.ParseFloat(a, 64)
			return n, err == nil
		}
	case kString:
		switch a := arg.(type) {
		case int:
			return strconv.Itoa(a), true
		case int64:
			return strconv.FormatInt(a, 10), true
		case float32:
			return opaqueNum{float64(a)}, true
		case float64:
			return opaqueNum{a}, true
		case string:
			return a, true
		}
	}
	panic("toElem")
}

// getMatches judges Get<want>(i) on an element.
func getMatches(kind int, el interface{}, want string, got interface{}, panicked bool) bool {
	if on, ok := el.(opaqueNum); ok {
		switch want {
		case "String":
			if panicked {
				return false
			}
			f, err := strconv.ParseFloat(got.(string), 64)
			return err == nil && (f == on.v || math.Abs(f-on.v) <= 1e-6*math.Max(1, math.Abs(on.v)))
		case "Float", "Double":
			if panicked {
				return false
			}
			f := reflect.ValueOf(got).Float()
			return math.Abs(f-on.v) <= 1e-6*math.Max(1, math.Abs(on.v))
		}
		return true // GetInt/GetLong of a formatted float: not judged
	}
	if s, ok := el.(string); ok {
		var exp interface{}
		var err error
		switch want {
		case "String":
			exp = s
		case "Int":
			exp, err = strconv.Atoi(s)
		case "Long":
			exp, err = strconv.ParseInt(s, 10, 64)
		case "Float":
			var f float64
			f, err = strconv.ParseFloat(s, 32)
			exp = float32(f)
		case "Double":
			exp, err = strconv.ParseFloat(s, 64)
		}
		if err != nil {
			return panicked
		}
		return !panicked && reflect.DeepEqual(exp, got)
	}
	if panicked {
		return false
	}
	rv := reflect.ValueOf(el)
	switch want {
	case "String":
		gs := got.(string)
		if rv.Kind() == reflect.Int || rv.Kind() == reflect.Int64 {
			return gs == strconv.FormatInt(rv.Int(), 10)
		}
		f, err := strconv.ParseFloat(gs, 64)
		return err == nil && math.Abs(f-rv.Float()) <= 1e-6*math.Max(1, math.Abs(rv.Float()))
	case "Int":
		return got.(int) == conv(rv, reflect.TypeOf(0)).Interface().(int)
	case "Long":
		return got.(int64) == conv(rv, reflect.TypeOf(int64(0))).Interface().(int64)
	case "Float":
		return got.(float32) == conv(rv, reflect.TypeOf(float32(0))).Interface().(float32)
	case "Double":
		return got.(float64) == conv(rv, reflect.TypeOf(float64(0))).Interface().(float64)
	}
	return false
}

func conv(v reflect.Value, t reflect.Type) reflect.Value { return v.Convert(t) }

// ---- operations -------------------------------------------------------------------------------

type lop struct {
	name string // Add<K>, Set<K>, Get<K>, AddAll, AddAllArray, ToArray, Size
	arg  interface{}
	idx  string // "-1","0","size-1","size","cap-1","cap"
	n    int    // bulk size
}

func (o lop) String() string {
	switch {
	case strings.HasPrefix(o.name, "Add") && o.name != "AddAll" && o.name != "AddAllArray":
		return fmt.Sprintf("%s(%v)", o.name, o.arg)
	case strings.HasPrefix(o.name, "Set"):
		return fmt.Sprintf("%s(%s,%v)", o.name, o.idx, o.arg)
	case strings.HasPrefix(o.name, "Get"):
		return fmt.Sprintf("%s(%s)", o.name, o.idx)
	case o.name == "AddAll" || o.name == "AddAllArray":
		return fmt.Sprintf("%s(%d elements)", o.name, o.n)
	}
	return o.name + "()"
}

type lmodel struct {
	kind int
	els  []interface{}
}

func ownArg(kind int, i int) interface{} {
	switch kind {
	case kInt:
		return []int{7, -3, math.MaxInt32}[i%3]
	case kLong:
		return []int64{7, -3, math.MaxInt64}[i%3]
	case kFloat:
		return []float32{1.5, -3, math.MaxFloat32}[i%3]
	case kDouble:
		return []float64{1.5, -3, math.MaxFloat64}[i%3]
	}
	return []string{"s1", "", "4"}[i%3]
}

func kindSuffix(kind int) string { return []string{"Int", "Long", "Float", "Double", "String"}[kind] }

func listOps(kind int, thorough bool) []lop {
	var ops []lop
	own := kindSuffix(kind)
	for i := 0; i < 3; i++ {
		ops = append(ops, lop{name: "Add" + own, arg: ownArg(kind, i)})
	}
	// cross-kind adds
	ops = append(ops, lop{name: "AddInt", arg: 5}, lop{name: "AddLong", arg: int64(-6)}, lop{name: "AddFloat", arg: float32(2.5)}, lop{name: "AddDouble", arg: -2.25}, lop{name: "AddString", arg: "12"}, lop{name: "AddString", arg: "x"}, lop{name: "AddString", arg: "1.5"})
	idxs := []string{"-1", "0", "size-1", "size", "cap-1", "cap"}
	for _, ix := range idxs {
		ops = append(ops, lop{name: "Set" + own, idx: ix, arg: ownArg(kind, 1)})
		ops = append(ops, lop{name: "Get" + own, idx: ix})
	}
	ops = append(ops, lop{name: "SetString", idx: "0", arg: "x"}, lop{name: "SetString", idx: "size-1", arg: "9"}, lop{name: "SetDouble", idx: "0", arg: 0.5})
	// cross-kind sets (every Set<K> of every list), in range and one past the end
	for _, ka := range []struct {
		k   string
		arg interface{}
	}{{"Int", 5}, {"Long", int64(-6)}, {"Float", float32(2.5)}, {"Double", -2.25}} {
		if ka.k != own {
			ops = append(ops, lop{name: "Set" + ka.k, idx: "0", arg: ka.arg}, lop{name: "Set" + ka.k, idx: "size", arg: ka.arg})
		}
	}
	ops = append(ops, lop{name: "GetValue", idx: "0"}, lop{name: "GetValue", idx: "size"})
	for _, k := range []string{"Int", "Long", "Float", "Double", "String"} {
		if k != own {
			ops = append(ops, lop{name: "Get" + k, idx: "0"}, lop{name: "Get" + k, idx: "size-1"})
		}
	}
	bulk := []int{0, 1, 10, 16}
	if thorough {
		bulk = []int{0, 1, 9, 10, 11, 15, 16}
	}
	for _, n := range bulk {
		ops = append(ops, lop{name: "AddAll", n: n}, lop{name: "AddAllArray", n: n})
	}
	ops = append(ops, lop{name: "ToArray"}, lop{name: "Size"})
	return ops
}

func tableCap(l list.AnyList) int {
	return reflect.ValueOf(l).Elem().FieldByName("table").Len()
}

func resolveIdx(ix string, size, capa int) int {
	switch ix {
	case "-1":
		return -1
	case "0":
		return 0
	case "size-1":
		return size - 1
	case "size":
		return size
	case "cap-1":
		return capa - 1
	case "cap":
		return capa
	}
	panic(ix)
}

func call(f func()) (panicked bool, msg string) {
	defer func() {
		if r := recover(); r != nil {
			panicked = true
			msg = fmt.Sprint(r)
		}
	}()
	f()
	return
}

func bulkElems(kind, n int) []interface{} {
	out := make([]interface{}, n)
	for i := range out {
		switch kind {
		case kInt:
			out[i] = 100 + i
		case kLong:
			out[i] = int64(100 + i)
		case kFloat:
			out[i] = float32(100 + i)
		case kDouble:
			out[i] = float64(100 + i)
		default:
			out[i] = fmt.Sprintf("b%d", i)
		}
	}
	return out
}

func elemEq(a, b interface{}) bool { return reflect.DeepEqual(a, b) }

func lstep(l list.AnyList, m *lmodel, o lop) string {
	size := len(m.els)
	capa := tableCap(l)
	rv := reflect.ValueOf(l)
	switch {
	case o.name == "Size":
		if l.Size() != size {
			return fmt.Sprintf("Size() %d, model %d", l.Size(), size)
		}
	case o.name == "ToArray":
		arr := rv.MethodByName("ToArray").Call(nil)[0]
		return cmpArray(arr, m)
	case o.name == "AddAll" || o.name == "AddAllArray":
		els := bulkElems(m.kind, o.n)
		var p bool
		var msg string
		if o.name == "AddAll" {
			other := newList(m.kind, -1)
			for _, e := range els {
				addOwn(other, m.kind, e)
			}
			p, msg = call(func() { rv.MethodByName("AddAll").Call([]reflect.Value{reflect.ValueOf(other)}) })
		} else {
			at := rv.MethodByName("AddAllArray").Type().In(0)
			sl := reflect.MakeSlice(at, o.n, o.n)
			for i, e := range els {
				sl.Index(i).Set(reflect.ValueOf(e))
			}
			p, msg = call(func() { rv.MethodByName("AddAllArray").Call([]reflect.Value{sl}) })
		}
		if p {
			return fmt.Sprintf("%s panicked: %s", o, msg)
		}
		m.els = append(m.els, els...)
	case strings.HasPrefix(o.name, "Add"):
		el, ok := toElem(m.kind, o.arg)
		p, msg := call(func() { rv.MethodByName(o.name).Call([]reflect.Value{reflect.ValueOf(o.arg)}) })
		if p != !ok {
			return fmt.Sprintf("%s: panicked=%v (%s), model expects panic=%v", o, p, msg, !ok)
		}
		if ok {
			m.els = append(m.els, el)
		}
	case strings.HasPrefix(o.name, "Set"):
		i := resolveIdx(o.idx, size, capa)
		el, ok := toElem(m.kind, o.arg)
		inRange := i >= 0 && i < size
		p, msg := call(func() { rv.MethodByName(o.name).Call([]reflect.Value{reflect.ValueOf(i), reflect.ValueOf(o.arg)}) })
		wantPanic := !ok || !inRange
		if p != wantPanic {
			return fmt.Sprintf("%s (index %d, size %d, capacity %d): panicked=%v (%s), model expects panic=%v", o, i, size, capa, p, msg, wantPanic)
		}
		if !wantPanic {
			m.els[i] = el
		}
	case strings.HasPrefix(o.name, "Get"):
		i := resolveIdx(o.idx, size, capa)
		inRange := i >= 0 && i < size
		var got interface{}
		p, msg := call(func() { got = rv.MethodByName(o.name).Call([]reflect.Value{reflect.ValueOf(i)})[0].Interface() })
		if !inRange {
			if !p {
				return fmt.Sprintf("%s (index %d, size %d, capacity %d) returned %v instead of reporting the index out of range (stale slot)", o, i, size, capa, got)
			}
			return ""
		}
		if o.name == "GetValue" {
			if p || got == nil {
				return fmt.Sprintf("%s (index %d) panicked=%v (%s) / returned %v for a stored element", o, i, p, msg, got)
			}
			return ""
		}
		if !getMatches(m.kind, m.els[i], strings.TrimPrefix(o.name, "Get"), got, p) {
			return fmt.Sprintf("%s (index %d) gave %v (panicked=%v %s), model element %v", o, i, got, p, msg, m.els[i])
		}
	}
	return ""
}

func addOwn(l list.AnyList, kind int, e interface{}) {
	switch kind {
	case kInt:
		l.AddInt(e.(int))
	case kLong:
		l.AddLong(e.(int64))
	case kFloat:
		l.AddFloat(e.(float32))
	case kDouble:
		l.AddDouble(e.(float64))
	default:
		l.AddString(e.(string))
	}
}

func cmpArray(arr reflect.Value, m *lmodel) string {
	if arr.Len() != len(m.els) {
		return fmt.Sprintf("ToArray() has %d elements, model %d", arr.Len(), len(m.els))
	}
	for i := 0; i < arr.Len(); i++ {
		got := arr.Index(i).Interface()
		if !getMatches(m.kind, m.els[i], kindSuffix(m.kind), got, false) {
			return fmt.Sprintf("ToArray()[%d] = %v, model %v", i, got, m.els[i])
		}
	}
	return ""
}

func lobserve(l list.AnyList, m *lmodel) string {
	if l.Size() != len(m.els) {
		return fmt.Sprintf("Size() %d, model %d", l.Size(), len(m.els))
	}
	if s := cmpArray(reflect.ValueOf(l).MethodByName("ToArray").Call(nil)[0], m); s != "" {
		return s
	}
	// wire form reads back to an equal list
	var msg string
	p, pm := call(func() {
		out := gio.NewDataOutputX()
		l.Write(out)
		b := out.ToByteArray()
		in := gio.NewDataInputX(b)
		fresh := newList(m.kind, -1)
		fresh.Read(in)
		if in.Available() != 0 {
			msg = fmt.Sprintf("Read left %d bytes of the list's wire form unread", in.Available())
			return
		}
		a1 := reflect.ValueOf(l).MethodByName("ToArray").Call(nil)[0].Interface()
		a2 := reflect.ValueOf(fresh).MethodByName("ToArray").Call(nil)[0].Interface()
		if !reflect.DeepEqual(a1, a2) {
			msg = fmt.Sprintf("wire round trip: wrote %v, read back %v", a1, a2)
		}
	})
	if p {
		return "Write/Read panicked: " + pm
	}
	return msg
}

func listSys(kind, capa, depth int, thorough bool) *seqx.Sys {
	ops := listOps(kind, thorough)
	return &seqx.Sys{
		Name:     fmt.Sprintf("%s(capacity=%d)", kindNames[kind], capa),
		NOps:     len(ops),
		New:      func() (interface{}, interface{}) { return newList(kind, capa), &lmodel{kind: kind} },
		Step:     func(i, m interface{}, op int) string { return lstep(i.(list.AnyList), m.(*lmodel), ops[op]) },
		Observe:  func(i, m interface{}) string { return lobserve(i.(list.AnyList), m.(*lmodel)) },
		OpLabel:  func(op int) string { return ops[op].String() },
		MaxDepth: depth,
		ModelKey: func(m interface{}) string { return fmt.Sprintf("%#v", m.(*lmodel).els) },
	}
}

// ---- linked list --------------------------------------------------------------------------------

type llop struct {
	name string
	k    int // node selector: 0 = first, 1 = last, 2 = second
}

func (o llop) String() string {
	if o.name == "PutBefore" || o.name == "Remove" {
		return fmt.Sprintf("%s(node#%s)", o.name, []string{"first", "last", "second"}[o.k])
	}
	return o.name + "()"
}

type llmodel struct {
	els  []string
	next int
}

func nodeAt(l *list.LinkedList, k int, size int) *list.LinkedListEntity {
	switch k {
	case 0:
		return l.GetFirst()
	case 1:
		return l.GetLast()
	default:
		f := l.GetFirst()
		if f == nil {
			return nil
		}
		return l.GetNext(f)
	}
}

func llstep(l *list.LinkedList, m *llmodel, o llop) (msg string) {
	defer func() {
		if r := recover(); r != nil {
			msg = fmt.Sprintf("%s panicked: %v", o, r)
		}
	}()
	fresh := func() string {
		// reuse the smallest id not in the list to keep the state space finite
		for i := 0; ; i++ {
			id := fmt.Sprintf("n%d", i)
			live := false
			for _, e := range m.els {
				if e == id {
					live = true
				}
			}
			if !live {
				return id
			}
		}
	}
	pos := func(k int) int {
		switch k {
		case 0:
			return 0
		case 1:
			return len(m.els) - 1
		}
		return 1
	}
	switch o.name {
	case "AddFirst":
		id := fresh()
		l.AddFirst(id)
		m.els = append([]string{id}, m.els...)
	case "AddLast", "Add":
		id := fresh()
		if o.name == "Add" {
			if !l.Add(id) {
				return "Add returned false"
			}
		} else {
			l.AddLast(id)
		}
		m.els = append(m.els, id)
	case "PutBefore":
		p := pos(o.k)
		if p < 0 || p >= len(m.els) {
			return "" // no such node: transition disabled
		}
		id := fresh()
		n := l.PutBefore(id, nodeAt(l, o.k, len(m.els)))
		if n == nil || n.Value != id {
			return "PutBefore did not return the new node"
		}
		m.els = append(m.els[:p:p], append([]string{id}, m.els[p:]...)...)
	case "Remove":
		p := pos(o.k)
		if p < 0 || p >= len(m.els) {
			return ""
		}
		v := l.Remove(nodeAt(l, o.k, len(m.els)))
		if v != m.els[p] {
			return fmt.Sprintf("Remove(node) returned %v, model %v", v, m.els[p])
		}
		m.els = append(m.els[:p:p], m.els[p+1:]...)
	case "RemoveFirst", "RemoveLast":
		var v interface{}
		if o.name == "RemoveFirst" {
			v = l.RemoveFirst()
		} else {
			v = l.RemoveLast()
		}
		if len(m.els) == 0 {
			if v != nil {
				return fmt.Sprintf("%s on an empty list returned %v", o.name, v)
			}
			return ""
		}
		p := 0
		if o.name == "RemoveLast" {
			p = len(m.els) - 1
		}
		if v != m.els[p] {
			return fmt.Sprintf("%s returned %v, model %v", o.name, v, m.els[p])
		}
		m.els = append(m.els[:p:p], m.els[p+1:]...)
	case "Clear":
		l.Clear()
		m.els = nil
	}
	return ""
}

func llobserve(l *list.LinkedList, m *llmodel) (msg string) {
	defer func() {
		if r := recover(); r != nil {
			msg = fmt.Sprintf("observation panicked: %v", r)
		}
	}()
	if l.Size() != len(m.els) {
		return fmt.Sprintf("Size() %d, model %d", l.Size(), len(m.els))
	}
	arr := l.ToArray()
	if len(arr) != len(m.els) {
		return fmt.Sprintf("ToArray() %v, model %v", arr, m.els)
	}
	for i := range arr {
		if arr[i] != m.els[i] {
			return fmt.Sprintf("ToArray() %v, model %v", arr, m.els)
		}
	}
	// forward walk through GetFirst/GetNext must give the same sequence and end at GetLast
	var walk []string
	var lastNode *list.LinkedListEntity
	for n, i := l.GetFirst(), 0; n != nil && i <= len(m.els)+1; n, i = l.GetNext(n), i+1 {
		walk = append(walk, n.Value.(string))
		lastNode = n
	}
	if strings.Join(walk, ",") != strings.Join(m.els, ",") {
		return fmt.Sprintf("GetFirst/GetNext walk %v, model %v", walk, m.els)
	}
	if lastNode != l.GetLast() {
		return "GetLast() is not the node the forward walk ends at"
	}
	if s := l.ToString(); len(m.els) > 0 && !strings.Contains(s, m.els[0]) {
		return "ToString() lacks the first element: " + s
	}
	return ""
}

func llSys(depth int) *seqx.Sys {
	ops := []llop{{"AddFirst", 0}, {"AddLast", 0}, {"Add", 0}, {"PutBefore", 0}, {"PutBefore", 1}, {"PutBefore", 2}, {"Remove", 0}, {"Remove", 1}, {"Remove", 2}, {"RemoveFirst", 0}, {"RemoveLast", 0}, {"Clear", 0}}
	return &seqx.Sys{
		Name:     "LinkedList",
		NOps:     len(ops),
		New:      func() (interface{}, interface{}) { return list.NewLinkedList(), &llmodel{} },
		Step:     func(i, m interface{}, op int) string { return llstep(i.(*list.LinkedList), m.(*llmodel), ops[op]) },
		Observe:  func(i, m interface{}) string { return llobserve(i.(*list.LinkedList), m.(*llmodel)) },
		OpLabel:  func(op int) string { return ops[op].String() },
		MaxDepth: depth,
		ModelKey: func(m interface{}) string { return fmt.Sprint(m.(*llmodel).els) },
	}
}

// ---- sorting / filtering (E3) ------------------------------------------------------------------------

func sortAlphabet(kind int) []interface{} {
	switch kind {
	case kInt:
		return []interface{}{-1, 0, 1, math.MaxInt32}
	case kLong:
		return []interface{}{int64(-1), int64(0), int64(1), int64(math.MinInt64)}
	case kFloat:
		return []interface{}{float32(-1), float32(0), float32(1.5), float32(math.MaxFloat32)}
	case kDouble:
		return []interface{}{-1.0, 0.0, 1.5, -math.MaxFloat64}
	}
	return []interface{}{"", "a", "b", "ab"}
}

func childAlphabet(kind int) []interface{} {
	switch kind {
	// the child is compared numerically as a double: neighbours that a 32-bit float cannot tell apart
	// (2^24 and 2^24+1, 2^40 and 2^40+1, 1e300 and the largest double) are in the alphabets
	case kInt:
		return []interface{}{0, -2, 16777216, 16777217}
	case kLong:
		return []interface{}{int64(1), int64(-2), int64(1) << 40, int64(1)<<40 + 1}
	case kFloat:
		return []interface{}{float32(0), float32(1), float32(-2)}
	case kDouble:
		return []interface{}{0.0, -2.0, 1e300, math.MaxFloat64}
	}
	return []interface{}{"1", "10", "9"} // text order differs from numeric order
}

func cmpElems(kind int, a, b interface{}) int {
	switch kind {
	case kInt:
		return cmpI(int64(a.(int)), int64(b.(int)))
	case kLong:
		return cmpI(a.(int64), b.(int64))
	case kFloat:
		return cmpF(float64(a.(float32)), float64(b.(float32)))
	case kDouble:
		return cmpF(a.(float64), b.(float64))
	}
	return strings.Compare(a.(string), b.(string))
}

func cmpI(a, b int64) int {
	if a < b {
		return -1
	} else if a > b {
		return 1
	}
	return 0
}
func cmpF(a, b float64) int {
	if a < b {
		return -1
	} else if a > b {
		return 1
	}
	return 0
}

// child comparison as the property states: text for a string child, numeric (double) otherwise
func cmpChild(kind int, a, b interface{}) int {
	if kind == kString {
		return strings.Compare(a.(string), b.(string))
	}
	return cmpF(reflect.ValueOf(a).Convert(reflect.TypeOf(float64(0))).Float(), reflect.ValueOf(b).Convert(reflect.TypeOf(float64(0))).Float())
}

func buildList(kind int, els []interface{}) list.AnyList {
	l := newList(kind, -1)
	for _, e := range els {
		addOwn(l, kind, e)
	}
	return l
}

func checkPerm(perm []int, n int) bool {
	if len(perm) != n {
		return false
	}
	seen := make([]bool, n)
	for _, p := range perm {
		if p < 0 || p >= n || seen[p] {
			return false
		}
		seen[p] = true
	}
	return true
}

// enumerate all arrays of length n over alphabet indexes
func eachTuple(n, base int, f func(t []int)) {
	t := make([]int, n)
	var rec func(i int)
	rec = func(i int) {
		if i == n {
			f(t)
			return
		}
		for v := 0; v < base; v++ {
			t[i] = v
			rec(i + 1)
		}
	}
	rec(0)
}

func runSorting(c *evid.Ctx, maxLen, maxLenChild int) {
	var wg sync.WaitGroup
	var evals, nontriv int64
	sem := make(chan struct{}, 16)
	for kind := 0; kind < 5; kind++ {
		alpha := sortAlphabet(kind)
		for n := 0; n <= maxLen; n++ {
			kind, n := kind, n
			wg.Add(1)
			sem <- struct{}{}
			go func() {
				defer wg.Done()
				defer func() { <-sem }()
				eachTuple(n, len(alpha), func(t []int) {
					els := make([]interface{}, n)
					for i, v := range t {
						els[i] = alpha[v]
					}
					for _, asc := range []bool{true, false} {
						l := buildList(kind, els)
						var perm []int
						p, msg := call(func() { perm = l.Sorting(asc) })
						atomic.AddInt64(&evals, 1)
						if n >= 2 {
							atomic.AddInt64(&nontriv, 1)
						}
						if p {
							c.Violation(fmt.Sprintf("C13:%s.Sorting:panic", kindNames[kind]), fmt.Sprintf("%s.Sorting(%v) of %v panicked: %s", kindNames[kind], asc, els, msg), map[string]interface{}{"list": kindNames[kind], "elements": fmt.Sprint(els), "asc": asc})
							continue
						}
						bad := !checkPerm(perm, n)
						for i := 0; !bad && i+1 < n; i++ {
							r := cmpElems(kind, els[perm[i]], els[perm[i+1]])
							if !asc {
								r = -r
							}
							if r > 0 {
								bad = true
							}
						}
						if bad {
							c.Violation(fmt.Sprintf("C13:%s.Sorting:order", kindNames[kind]), fmt.Sprintf("%s.Sorting(asc=%v) of %v returned %v: not an ordering permutation", kindNames[kind], asc, els, perm), map[string]interface{}{"list": kindNames[kind], "elements": fmt.Sprint(els), "asc": asc, "result": perm})
						}
					}
					if n > maxLenChild || n == 0 {
						return
					}
					for ck := 0; ck < 5; ck++ {
						calpha := childAlphabet(ck)
						eachTuple(n, len(calpha), func(ct []int) {
							cels := make([]interface{}, n)
							for i, v := range ct {
								cels[i] = calpha[v]
							}
							for _, asc := range []bool{true, false} {
								for _, casc := range []bool{true, false} {
									l := buildList(kind, els)
									child := buildList(ck, cels)
									var perm []int
									p, msg := call(func() { perm = l.SortingAnyList(asc, child, casc) })
									atomic.AddInt64(&evals, 1)
									atomic.AddInt64(&nontriv, 1)
									if p {
										c.Violation(fmt.Sprintf("C13:%s.SortingAnyList:panic", kindNames[kind]), fmt.Sprintf("%s.SortingAnyList(%v, %s %v, %v) of %v panicked: %s", kindNames[kind], asc, kindNames[ck], cels, casc, els, msg), nil)
										continue
									}
									bad := !checkPerm(perm, n)
									for i := 0; !bad && i+1 < n; i++ {
										r := cmpElems(kind, els[perm[i]], els[perm[i+1]])
										if !asc {
											r = -r
										}
										if r == 0 {
											r = cmpChild(ck, cels[perm[i]], cels[perm[i+1]])
											if !casc {
												r = -r
											}
										}
										if r > 0 {
											bad = true
										}
									}
									if bad {
										c.Violation(fmt.Sprintf("C13:%s.SortingAnyList:order", kindNames[kind]), fmt.Sprintf("%s.SortingAnyList(asc=%v, child %s %v, childAsc=%v) of %v returned %v: not ordered by (primary, child)", kindNames[kind], asc, kindNames[ck], cels, casc, els, perm),
											map[string]interface{}{"list": kindNames[kind], "elements": fmt.Sprint(els), "child": fmt.Sprint(cels), "asc": asc, "childAsc": casc, "result": perm})
									}
								}
							}
						})
					}
				})
			}()
		}
	}
	wg.Wait()
	c.Count("sorting_evaluations", evals)
	c.Count("evaluations", evals)
	c.Count("distinct_nontrivial", nontriv)
}

func runFiltering(c *evid.Ctx, maxLen int) {
	for kind := 0; kind < 5; kind++ {
		base := []interface{}{ownArg(kind, 0), ownArg(kind, 1), ownArg(kind, 2)}
		idxAlpha := []int{-1, 0, 1, 2, 3}
		for n := 0; n <= maxLen; n++ {
			eachTuple(n, len(idxAlpha), func(t []int) {
				idx := make([]int, n)
				ok := true
				for i, v := range t {
					idx[i] = idxAlpha[v]
					if idx[i] < 0 || idx[i] >= 3 {
						ok = false
					}
				}
				l := buildList(kind, base)
				var out list.AnyList
				p, msg := call(func() { out = l.Filtering(idx) })
				c.Count("filtering_evaluations", 1)
				c.Count("evaluations", 1)
				if p != !ok {
					c.Violation(fmt.Sprintf("C13:%s.Filtering:range", kindNames[kind]), fmt.Sprintf("%s.Filtering(%v) on 3 elements: panicked=%v (%s), expected panic=%v", kindNames[kind], idx, p, msg, !ok), nil)
					return
				}
				if !ok {
					return
				}
				m := &lmodel{kind: kind}
				for _, i := range idx {
					m.els = append(m.els, base[i])
				}
				if out.Size() != n {
					c.Violation(fmt.Sprintf("C13:%s.Filtering:content", kindNames[kind]), fmt.Sprintf("%s.Filtering(%v) returned %d elements", kindNames[kind], idx, out.Size()), nil)
					return
				}
				if s := cmpArray(reflect.ValueOf(out).MethodByName("ToArray").Call(nil)[0], m); s != "" {
					c.Violation(fmt.Sprintf("C13:%s.Filtering:content", kindNames[kind]), fmt.Sprintf("%s.Filtering(%v): %s", kindNames[kind], idx, s), nil)
				}
			})
		}
	}
}

func Run(c *evid.Ctx) {
	depth, lldepth, sl, slc, fl := 4, 6, 5, 4, 3
	if c.Thorough() {
		depth, lldepth, sl, slc, fl = 5, 8, 7, 5, 4
	}
	report := func(name string, r seqx.Result) {
		c.Count("states", int64(r.States))
		c.Count("transitions", int64(r.Transitions))
		c.Sample(map[string]interface{}{"system": name, "states": r.States, "transitions": r.Transitions, "depth": r.Depth, "fixpoint": r.Fixpoint, "frontier": r.SampleHist})
		if !r.Fixpoint {
			c.NotExhaustive(name + ": complete to depth " + strconv.Itoa(r.Depth) + " (lists grow without bound)")
		}
		for _, v := range r.Viols {
			last := ""
			if len(v.Labels) > 0 {
				last = strings.SplitN(v.Labels[len(v.Labels)-1], "(", 2)[0]
			}
			w := v.What
			if len(w) > 40 {
				w = w[:40]
			}
			key := fmt.Sprintf("C13:%s:%s:%s", strings.SplitN(name, "(", 2)[0], last, classify(v.What))
			c.Violation(key, fmt.Sprintf("%s after %v: %s", name, v.Labels, v.What), map[string]interface{}{"engine": "E2", "system": name, "history": v.Labels, "what": v.What})
		}
	}
	for kind := 0; kind < 5; kind++ {
		for _, capa := range []int{-1, 0, 1, 2, 10} {
			s := listSys(kind, capa, depth, c.Thorough())
			report(s.Name, seqx.BFS(s))
		}
	}
	report("LinkedList", seqx.BFS(llSys(lldepth)))
	runSorting(c, sl, slc)
	runFiltering(c, fl)
	tr := 3
	if c.Thorough() {
		tr = 4
	}
	runTables(c, tr)
	c.Cov["traces_validated_against_impl"] = c.Counter("transitions")
	c.Cov["rule"] = "sequence part: states = distinct canonical heaps (backing array incl. stale slots, size), transitions = real calls compared with a slice model; sorting part: every array up to the stated length over a 4-value alphabet with duplicates, both directions, with every child list over a 3-value alphabet of every list type; non-trivial = at least two elements"
	c.Assume("NaN is excluded from float alphabets (the property says NaN-free floats); float-to-int conversions of out-of-range values are not in the alphabet (undefined in Go)")
	c.Assume("the text a numeric list produces for GetString, and the text a string list stores for AddFloat/AddDouble, is only required to parse back to the number")
}

func classify(w string) string {
	switch {
	case strings.Contains(w, "stale slot"):
		return "stale-slot"
	case strings.Contains(w, "panicked"):
		return "panic"
	case strings.Contains(w, "wire"), strings.Contains(w, "Read left"):
		return "wire"
	}
	return "mismatch"
}

var _ = sort.Ints
