package c13

import (
	"fmt"

	"verif/engine/evid"

	"github.com/whatap/golib/lang/pack"
	"github.com/whatap/golib/util/list"
)

// runTables: the table pack (StatGeneralPack) sorts a table of typed columns by one column, or by
// one with ties broken by another, by applying the lists' sorting and filtering to every column.
// Every table of up to maxRows rows over two-valued key columns of every pair of list types, with a
// unique row id column, is sorted in every direction combination, directly and after a trip over
// the wire: every row keeps its cells, the rows are a permutation, and the key order is as requested.
func runTables(c *evid.Ctx, maxRows int) {
	keyVals := func(kind int) []interface{} {
		a := sortAlphabet(kind)
		return []interface{}{a[1], a[2]}
	}
	for k1 := 0; k1 < 5; k1++ {
		for k2 := 0; k2 < 5; k2++ {
			v1, v2 := keyVals(k1), keyVals(k2)
			for n := 0; n <= maxRows; n++ {
				eachTuple(2*n, 2, func(t []int) {
					c1 := make([]interface{}, n)
					c2 := make([]interface{}, n)
					ids := make([]interface{}, n)
					for i := 0; i < n; i++ {
						c1[i], c2[i], ids[i] = v1[t[i]], v2[t[n+i]], fmt.Sprintf("row%d", i)
					}
					for mode := 0; mode < 6; mode++ {
						asc, asc2, two := mode&1 == 0, mode&2 == 0, mode >= 2
						if !two && mode&2 != 0 {
							continue
						}
						for _, wire := range []bool{false, true} {
							c.Count("evaluations", 1)
							c.Count("table_sort_evaluations", 1)
							if n >= 2 {
								c.Count("distinct_nontrivial", 1)
							}
							desc := fmt.Sprintf("table of %d rows, key1 %sList %v, key2 %sList %v, sorted by key1 asc=%v", n, kindSuffix(k1), c1, kindSuffix(k2), c2, asc)
							if two {
								desc += fmt.Sprintf(" then key2 asc=%v", asc2)
							}
							if wire {
								desc += " after a trip over the wire"
							}
							verdict := ""
							func() {
								defer func() {
									if r := recover(); r != nil {
										verdict = fmt.Sprintf("panic: %v", r)
									}
								}()
								p := pack.NewStatGeneralPack()
								p.Put("key1", buildList(k1, c1))
								p.Put("key2", buildList(k2, c2))
								p.Put("id", buildList(kString, ids))
								if wire {
									q, ok := pack.ToPack(pack.ToBytesPack(p)).(*pack.StatGeneralPack)
									if !ok {
										verdict = "wire: decoded to another type"
										return
									}
									q.GetDataTable()
									p = q
								}
								if two {
									p.SortAnyList("key1", asc, "key2", asc2)
								} else {
									p.Sort("key1", asc)
								}
								g1, g2, gid := p.Get("key1"), p.Get("key2"), p.Get("id")
								if g1.Size() != n || g2.Size() != n || gid.Size() != n {
									verdict = fmt.Sprintf("sizes %d/%d/%d, expected %d rows", g1.Size(), g2.Size(), gid.Size(), n)
									return
								}
								seen := map[string]bool{}
								for i := 0; i < n; i++ {
									id := gid.GetString(i)
									var orig int
									if _, err := fmt.Sscanf(id, "row%d", &orig); err != nil || orig < 0 || orig >= n || seen[id] {
										verdict = fmt.Sprintf("row %d carries id %q: not a permutation of the rows", i, id)
										return
									}
									seen[id] = true
									if cmpElems(k1, cellOf(g1, k1, i), c1[orig]) != 0 || cmpElems(k2, cellOf(g2, k2, i), c2[orig]) != 0 {
										verdict = fmt.Sprintf("row %q no longer carries its own cells (key1 %v, key2 %v; it had %v, %v)", id, cellOf(g1, k1, i), cellOf(g2, k2, i), c1[orig], c2[orig])
										return
									}
									if i > 0 {
										d := cmpElems(k1, cellOf(g1, k1, i-1), cellOf(g1, k1, i))
										if !asc {
											d = -d
										}
										if d > 0 {
											verdict = fmt.Sprintf("key1 out of order at rows %d/%d", i-1, i)
											return
										}
										if d == 0 && two {
											e := cmpChild(k2, cellOf(g2, k2, i-1), cellOf(g2, k2, i))
											if !asc2 {
												e = -e
											}
											if e > 0 {
												verdict = fmt.Sprintf("key2 out of order inside a key1 tie at rows %d/%d", i-1, i)
												return
											}
										}
									}
								}
							}()
							if verdict != "" {
								c.Violation("C13:StatGeneralPack:sort:"+classify(verdict), desc+": "+verdict, map[string]interface{}{"engine": "E3", "table": desc})
							}
						}
					}
				})
			}
		}
	}
}

func cellOf(l list.AnyList, kind, i int) interface{} {
	switch kind {
	case kInt:
		return l.GetInt(i)
	case kLong:
		return l.GetLong(i)
	case kFloat:
		return l.GetFloat(i)
	case kDouble:
		return l.GetDouble(i)
	}
	return l.GetString(i)
}
