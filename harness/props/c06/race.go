package c06

import (
	"sort"

	"verif/engine/dfs"
	"verif/engine/evid"
	"verif/engine/racepass"
)

// RaceWorker (in the -race build) validates the premise of the schedule enumeration of this
// property — code between two synchronisation operations runs atomically, which is sound only for
// data-race-free code — by running the same scenarios in the race mode of engine E1 (preemption
// bound 1): two accesses of library code that no synchronisation of the library orders are reported.
func RaceWorker(c *evid.Ctx) {
	var items []racepass.Item
	for _, s := range scenarios(false) {
		items = append(items, racepass.Item{Name: s.String(), Sc: s.scenario(), Cfg: dfs.Config{Preemptions: 1, Faults: 0, StepCap: 6000, MaxExec: 3000}})
	}
	found := racepass.Worker(c, items)
	var keys []string
	for k := range found {
		keys = append(keys, k)
	}
	sort.Strings(keys)
	// The property does not speak about data races; what is checked here is the premise of the
	// schedule enumeration of the ordinary build. Sites where it does not hold are reported as
	// information (and in coverage.premise_unsynchronised_sites), not as violations of the property.
	var sites []string
	for _, k := range keys {
		f := found[k]
		sites = append(sites, k)
		a, b := racepass.Method(f.Rep.Sites[0])+" ("+f.Rep.Kinds[0]+")", racepass.Method(f.Rep.Sites[1])+" ("+f.Rep.Kinds[1]+")"
		if a > b {
			a, b = b, a
		}
		c.Info("premise check (atomic blocks): %s — %s and %s are not ordered by any synchronisation of the library", k, a, b)
	}
	_ = sites
}
