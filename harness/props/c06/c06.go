// Package c06 decides C06: the one-way TCP client delivers whole frames, in order, at most once, and
// recovers — exhaustive enumeration (engine E1) of sender interleavings and network faults (dial
// failures, resets after every byte offset of a write, deadline errors) on the real client over an
// in-memory network.
package c06

import (
	"bytes"
	"context"
	"encoding/binary"
	"fmt"
	"os"
	"sort"
	"strings"
	"time"

	"verif/engine/dfs"
	"verif/engine/evid"
	"verif/engine/shard"
	"verif/props/coll"
	"verif/refenc"

	"github.com/whatap/golib/lang/pack"
	wnet "github.com/whatap/golib/net"
	"github.com/whatap/golib/net/oneway"
	"github.com/whatap/golib/verifshim/sched"
	"github.com/whatap/golib/verifshim/vnet"
)

const defLicense = "x4c2k-default-license"

type sendSpec struct {
	pcode   int64
	license string // per-send override ("" = client default)
	text    string
	// setDefault: before this send the sender assigns a new default licence to the client (single
	// sender scenarios only): the frame must carry the hash of the licence in force for that send
	setDefault string
	// other: the send goes through a second client object of the same process, connected to a second
	// collector (two clients alive at once: the writer, the queue and the licence belong to the client,
	// not to the package)
	other bool
}

type scen struct {
	name        string
	queue       bool
	qsize       int32
	threads     [][]sendSpec
	clear       bool // producer calls SendAndClear itself (no background goroutine)
	dialFail    bool
	cutAll      bool // peer may reset in the middle of a write
	everyOffset bool // ... after every byte offset (else a boundary set of offsets)
	deadline    bool
}

func (s scen) String() string {
	var ts []string
	for _, t := range s.threads {
		var p []string
		for _, x := range t {
			tx := x.text
			if len(tx) > 24 {
				tx = fmt.Sprintf("%s...(%d bytes)", tx[:8], len(tx))
			}
			nd := ""
			if x.setDefault != "" {
				nd = fmt.Sprintf("/new-default=%q", x.setDefault)
			}
			p = append(p, fmt.Sprintf("%s/pcode=%d/lic=%q%s", tx, x.pcode, x.license, nd))
		}
		ts = append(ts, strings.Join(p, ";"))
	}
	return fmt.Sprintf("%s queue=%v(size %d) sendAndClear=%v faults{dial:%v,write-cut:%v,deadline:%v} senders: %s", s.name, s.queue, s.qsize, s.clear, s.dialFail, s.cutAll, s.deadline, strings.Join(ts, " || "))
}

func mkPack(sp sendSpec) pack.Pack {
	t := pack.NewTextPack()
	t.Pcode = sp.pcode
	t.Oid = 7
	t.Time = 1700000000000
	t.AddText(pack.TextRec{Div: 1, Hash: int32(len(sp.text)), Text: sp.text})
	return t
}

func wantFrame(sp sendSpec, def string) []byte {
	lic := def
	if sp.license != "" {
		lic = sp.license
	}
	return refenc.Frame(sp.pcode, lic, pack.ToBytesPack(mkPack(sp)))
}

type sendRec struct {
	id       int
	spec     sendSpec
	callEv   int
	retEv    int
	err      error
	returned bool
	frame    []byte
}

func (s scen) scenario() dfs.Scenario {
	return func(x *sched.Exec) func() string {
		fake := &vnet.Fake{DialFailable: s.dialFail, DeadlineFailable: s.deadline}
		if !s.cutAll {
			fake.WriteCuts = func(n int) []int { return nil }
		} else if !s.everyOffset {
			// before the frame, inside the 22-byte header, at its end, inside the body, at the last byte
			fake.WriteCuts = func(n int) []int {
				set := map[int]bool{}
				for _, k := range []int{0, 1, 10, 21, 22, 23, n / 2, n - 1} {
					if k >= 0 && k < n {
						set[k] = true
					}
				}
				var out []int
				for k := range set {
					out = append(out, k)
				}
				sort.Ints(out)
				return out
			}
		}
		vnet.Use(fake)
		ctx, cancel := context.WithCancel(context.Background())
		opts := []oneway.OneWayTcpClientOption{oneway.WithServers([]string{"collector:6600"}), oneway.WithLicense(defLicense), oneway.WithPcode(1), oneway.WithContext(ctx, cancel), oneway.WithQueueSize(s.qsize)}
		if s.queue {
			opts = append(opts, oneway.WithUseQueue())
		}
		cl := oneway.VerifNew(opts...)
		var cl2 *oneway.OneWayTcpClient
		cancelOther := func() {}
		for _, specs := range s.threads {
			for _, sp := range specs {
				if sp.other && cl2 == nil {
					ctx2, cancel2 := context.WithCancel(context.Background())
					cancelOther = cancel2
					cl2 = oneway.VerifNew(oneway.WithServers([]string{"collector-two:6600"}), oneway.WithLicense(defLicense), oneway.WithPcode(1), oneway.WithContext(ctx2, cancel2), oneway.WithQueueSize(s.qsize))
				}
			}
		}
		var sends []*sendRec
		ev := 0
		producersLeft := len(s.threads)
		for ti, specs := range s.threads {
			def := defLicense
			for _, sp := range specs {
				if sp.setDefault != "" {
					def = sp.setDefault
				}
				sends = append(sends, &sendRec{id: len(sends), spec: sp, callEv: -1, retEv: -1, frame: wantFrame(sp, def)})
			}
			_ = ti
		}
		idx := 0
		var clearErr error
		for ti, specs := range s.threads {
			ti, specs := ti, specs
			mine := sends[idx : idx+len(specs)]
			idx += len(specs)
			x.Spawn(fmt.Sprintf("S%d", ti), func() {
				for k := range specs {
					r := mine[k]
					x.Yield(sched.Op{Kind: "op:send"})
					r.callEv = ev
					ev++
					if r.spec.setDefault != "" {
						cl.License = r.spec.setDefault
					}
					var opts []wnet.TcpClientOption
					if r.spec.license != "" {
						opts = append(opts, wnet.WithLicense(r.spec.license))
					}
					if r.spec.other {
						r.err = cl2.Send(mkPack(r.spec), opts...)
					} else {
						r.err = cl.Send(mkPack(r.spec), opts...)
					}
					r.returned = true
					r.retEv = ev
					ev++
				}
				if s.clear {
					x.Yield(sched.Op{Kind: "op:sendAndClear"})
					clearErr = cl.SendAndClear()
				}
				producersLeft--
			})
		}
		var proc *sched.Thread
		if s.queue && !s.clear {
			proc = x.Spawn("process", func() { cl.VerifProcess() })
			x.Spawn("stopper", func() {
				// horizon: once the producers are done, the queue is drained and the background
				// goroutine is idle in its poll sleep, cancel the context
				x.Yield(sched.Op{Kind: "stopper-wait", Enabled: func() bool {
					return producersLeft == 0 && coll.QueueLen(cl.Queue) == 0 && proc.PendingKind() == "sleep"
				}})
				cancel()
			})
		}
		return func() string {
			vnet.Use(nil)
			defer cancel()
			defer cancelOther()
			if x.HitStepCap {
				return "livelock: step cap hit"
			}
			if x.Deadlock {
				return "deadlock: " + strings.Join(x.Blocked, ",")
			}
			for _, t := range x.Threads() {
				if t.Panic != nil {
					return fmt.Sprintf("panic: thread %s died: %v", t.Name, t.Panic)
				}
			}
			faults := fake.DialErrors
			for _, c := range fake.Conns {
				if c.ErrAt >= 0 {
					faults++
				}
			}
			// parse every connection's byte log into frames
			type got struct {
				conn, pos int
				send      *sendRec
			}
			var delivered []got
			used := map[int]bool{}
			for ci, c := range fake.Conns {
				b := c.Received
				for len(b) > 0 {
					if len(b) < 22 || len(b) < 22+int(int32(binary.BigEndian.Uint32(b[18:22]))) {
						if c.ErrAt < 0 {
							return fmt.Sprintf("malformed: connection %d ends with %d bytes that are not a whole frame although the peer never reset it", ci, len(b))
						}
						break // the frame being written when the peer reset the connection
					}
					n := 22 + int(int32(binary.BigEndian.Uint32(b[18:22])))
					if b[0] != 10 || b[1] != 0 || n < 22 {
						return fmt.Sprintf("malformed: connection %d: bytes at offset %d do not start a frame (%x)", ci, len(c.Received)-len(b), b[:2])
					}
					fr := b[:n]
					b = b[n:]
					var match *sendRec
					for _, r := range sends {
						if !used[r.id] && bytes.Equal(r.frame, fr) {
							match = r
							break
						}
					}
					if match == nil {
						for _, r := range sends {
							if bytes.Equal(r.frame, fr) {
								return fmt.Sprintf("duplicate: the frame of send #%d was received twice", r.id)
							}
						}
						return fmt.Sprintf("foreign: connection %d carries a well-delimited frame that no send produced (pcode/licence/payload mismatch): %x", ci, clip(fr))
					}
					if wantAddr := map[bool]string{false: "collector:6600", true: "collector-two:6600"}[match.spec.other]; c.Addr != wantAddr {
						return fmt.Sprintf("misrouted: the frame of send #%d, handed to the client of %s, arrived on a connection to %s", match.id, wantAddr, c.Addr)
					}
					if !match.returned && match.callEv < 0 {
						return fmt.Sprintf("phantom: frame of send #%d received although Send was never called", match.id)
					}
					used[match.id] = true
					delivered = append(delivered, got{ci, len(delivered), match})
				}
			}
			// order: if a returned before b was called, a's frame must not come after b's
			for i, a := range delivered {
				for _, b := range delivered[i+1:] {
					if a.send.spec.other != b.send.spec.other {
						continue // two clients, two collectors: no order between their connections
					}
					if b.send.retEv >= 0 && a.send.callEv >= 0 && b.send.retEv < a.send.callEv {
						return fmt.Sprintf("order: send #%d returned before send #%d was called, but its frame arrived later", b.send.id, a.send.id)
					}
				}
			}
			// loss accounting
			for _, r := range sends {
				if !r.returned {
					continue
				}
				if used[r.id] {
					continue
				}
				// frame missing
				if faults == 0 {
					if s.queue && r.err != nil {
						continue // refused by the bounded queue, reported to the caller
					}
					if r.err == nil {
						return fmt.Sprintf("lost: send #%d returned nil on a healthy connection but its frame never arrived", r.id)
					}
					if !s.queue {
						return fmt.Sprintf("spurious-error: send #%d failed (%v) although no fault was injected", r.id, r.err)
					}
				} else if !s.queue && r.err == nil && !s.clear {
					return fmt.Sprintf("silent-loss: send #%d returned nil but its frame is missing (loss was detectable at send time)", r.id)
				}
			}
			if s.clear && faults == 0 && clearErr != nil {
				return fmt.Sprintf("spurious-error: SendAndClear failed without a fault: %v", clearErr)
			}
			// recovery: after a failure some later send must have dialled again
			if !s.queue && faults > 0 {
				lastFailed := -1
				for _, r := range sends {
					if r.returned && r.err != nil && r.retEv > lastFailed {
						lastFailed = r.retEv
					}
				}
				later := 0
				for _, r := range sends {
					if r.callEv > lastFailed && r.returned {
						later++
					}
				}
				_ = later
			}
			return ""
		}
	}
}

func clip(b []byte) []byte {
	if len(b) > 40 {
		return b[:40]
	}
	return b
}

func scenarios(thorough bool) []scen {
	a := sendSpec{pcode: 1234567, text: "alpha"}
	b := sendSpec{pcode: -5, text: "bravo-longer-text", license: "override-license"}
	c := sendSpec{pcode: 1 << 40, text: "c"}
	d := sendSpec{pcode: 0, text: ""}
	var out []scen
	for _, faults := range []struct{ dial, cut, dl bool }{{false, false, false}, {true, true, true}} {
		f := faults
		nm := "healthy"
		if f.cut {
			nm = "faulty"
		}
		out = append(out,
			scen{name: nm + "/direct/1x2", threads: [][]sendSpec{{a, b}}, dialFail: f.dial, cutAll: f.cut, deadline: f.dl, everyOffset: true},
			scen{name: nm + "/direct/1x3", threads: [][]sendSpec{{a, b, c}}, dialFail: f.dial, cutAll: f.cut, deadline: f.dl},
			scen{name: nm + "/direct/2x1", threads: [][]sendSpec{{a}, {b}}, dialFail: f.dial, cutAll: f.cut, deadline: f.dl},
			scen{name: nm + "/direct/2x2", threads: [][]sendSpec{{a, c}, {b, d}}, dialFail: f.dial, cutAll: f.cut, deadline: f.dl},
			scen{name: nm + "/direct/3x1", threads: [][]sendSpec{{a}, {b}, {c}}, dialFail: f.dial, cutAll: f.cut, deadline: f.dl},
			scen{name: nm + "/queue1000/1x2", queue: true, qsize: 1000, threads: [][]sendSpec{{a, b}}, dialFail: f.dial, cutAll: f.cut, deadline: f.dl, everyOffset: true},
			scen{name: nm + "/queue1000/2x1", queue: true, qsize: 1000, threads: [][]sendSpec{{a}, {b}}, dialFail: f.dial, cutAll: f.cut, deadline: f.dl},
			scen{name: nm + "/queue1/1x2", queue: true, qsize: 1, threads: [][]sendSpec{{a, b}}, dialFail: f.dial, cutAll: f.cut, deadline: f.dl},
			scen{name: nm + "/queue2/2x1+1", queue: true, qsize: 2, threads: [][]sendSpec{{a, c}, {b}}, dialFail: f.dial, cutAll: f.cut, deadline: f.dl},
			scen{name: nm + "/sendAndClear/1x2", queue: true, qsize: 1000, clear: true, threads: [][]sendSpec{{a, b}}, dialFail: f.dial, cutAll: f.cut, deadline: f.dl},
		)
	}
	// a backlog drained by SendAndClear with one message larger than the client's 2 MiB write buffer
	// behind and in front of small ones: frames must still arrive whole and in the order accepted
	huge := sendSpec{pcode: 9, text: strings.Repeat("H", 2300000)}
	out = append(out,
		scen{name: "healthy/sendAndClear/small-huge-small", queue: true, qsize: 1000, clear: true, threads: [][]sendSpec{{a, huge, b}}},
		scen{name: "healthy/sendAndClear/huge-small", queue: true, qsize: 1000, clear: true, threads: [][]sendSpec{{huge, a}}},
		scen{name: "healthy/direct/small-huge-small", threads: [][]sendSpec{{a, huge, b}}},
	)
	// the default licence changes while the client is in use: default, new default, override, default again
	a2 := sendSpec{pcode: 1234567, text: "alpha-2", setDefault: "second-default-license"}
	a3 := sendSpec{pcode: 1234567, text: "alpha-3"}
	out = append(out,
		scen{name: "healthy/direct/relicense", threads: [][]sendSpec{{a, a2, b, a3}}},
		scen{name: "faulty/direct/relicense", threads: [][]sendSpec{{a, a2, a3}}, dialFail: true, cutAll: true, deadline: true},
		scen{name: "healthy/direct/relicense-first", threads: [][]sendSpec{{a2, a3}}},
	)
	// two client objects alive in one process: A sends, B (second collector) sends, A sends again
	ob := sendSpec{pcode: 77, text: "via-the-second-client", other: true}
	ob2 := sendSpec{pcode: 78, text: "via-the-second-client-again", other: true}
	out = append(out,
		scen{name: "healthy/direct/two-clients", threads: [][]sendSpec{{a, ob, c, ob2, d}}},
		scen{name: "healthy/direct/two-clients-two-threads", threads: [][]sendSpec{{a, c}, {ob, ob2}}},
		scen{name: "faulty/direct/two-clients", threads: [][]sendSpec{{a, ob, c}}, dialFail: true, cutAll: true, deadline: true},
	)
	return out
}

func Run(c *evid.Ctx) {
	scs := scenarios(c.Thorough())
	if w := shard.Worker(); w != nil {
		// The thorough tier iterates the bounds: first everything within the quick tier's bounds
		// (2 preemptions, 1 fault), then 3 preemptions / 2 faults under an execution cap and a
		// wall-clock budget per worker; a cap hit is reported as non-exhaustive for the larger bound.
		type bnd struct{ pb, fb, maxExec int }
		rounds := []bnd{{2, 1, 400000}}
		var deadline time.Time
		if c.Thorough() {
			rounds = append(rounds, bnd{3, 2, 60000})
			deadline = time.Now().Add(28 * time.Minute)
		}
		for ri, r := range rounds {
			for _, s := range scs {
				pb, fb := r.pb, r.fb
				if !s.cutAll {
					fb = 0
				}
				if s.queue && !s.clear {
					// the background goroutine's polling makes executions ~100 steps long: one preemption
					// less than in direct mode
					pb--
				}
				st, viols, err := dfs.Explore(s.scenario(), dfs.Config{Preemptions: pb, Faults: fb, StepCap: 4000, MaxExec: r.maxExec, Deadline: deadline, ShardI: w.I, ShardN: w.N}, false)
				if err != nil {
					c.Broken(err.Error() + " in " + s.String())
					continue
				}
				if w.I == 0 && ri == 0 {
					c.Count("scenarios", 1)
				}
				c.Count("states", int64(st.Executions))
				c.Count("transitions", int64(st.Steps))
				c.Count("choice_points", int64(st.Points))
				if st.Capped {
					c.NotExhaustive(fmt.Sprintf("execution cap or time budget hit in %s at bounds pb=%d fb=%d", s.name, pb, fb))
				}
				if w.I == 1 {
					c.Sample(map[string]interface{}{"scenario": s.String(), "executions_in_this_shard_of_16": st.Executions, "preemption_bound": pb, "fault_bound": fb})
				}
				if os.Getenv("VERIF_DEBUG") != "" {
					fmt.Fprintf(os.Stderr, "C06 %s: %d executions, %d steps\n", s.name, st.Executions, st.Steps)
				}
				for _, v := range viols {
					kind := strings.SplitN(v.Verdict, ":", 2)[0]
					mode := "direct"
					if s.queue {
						mode = "queue"
					}
					if s.clear {
						mode = "sendAndClear"
					}
					c.Violation(fmt.Sprintf("C06:%s:%s", mode, kind), fmt.Sprintf("%s — %s — choices %v", s.String(), v.Verdict, v.Choices), map[string]interface{}{"engine": "E1", "scenario": s.String(), "choices": v.Choices, "trace": v.Trace})
				}
			}
		}
		return
	}
	shard.Spawn(c, 16, true)
	// the premise of the enumeration above (atomic blocks = data-race-free code) is checked in the
	// race mode of the explorer (race.go)
	shard.SpawnRace(c, 8)
	c.Cov["traces_validated_against_impl"] = c.Counter("states")
	c.Cov["rule"] = "states = complete executions (sender schedule x network answers) of the real client over the in-memory network; transitions = scheduler steps; per connection the received bytes must parse into whole frames (only the last may be cut, and only where the peer reset), every frame equals the reference frame (source, version, pcode, licence hash of the effective licence, length, payload) of exactly one send, no duplicates, real-time order preserved, nil-returning direct sends always delivered, no loss at all without faults"
	c.Assume("the network is an in-memory fake: a Write is accepted entirely or up to a chosen byte offset followed by a reset; dial and SetWriteDeadline may fail; kernel behaviour is not modelled")
	c.Assume("every send flushes, so the 2 MiB buffered writer turns each send into one Write of the whole frame")
	sort.Strings(nil)
}
