// Package c07 decides C07: UDP tracer packs — writer and reader agree for every type and protocol
// version, pooled packs come back clean, connection-string passwords are masked (E3 over
// type x version x k-deviation field assignments; small E2 over pool histories).
package c07

import (
	"bytes"
	"fmt"
	"os"
	"path/filepath"
	"reflect"
	"regexp"
	"sort"
	"strconv"
	"strings"
	"sync"
	"sync/atomic"

	"verif/engine/enum"
	"verif/engine/evid"
	"verif/props/packs"

	gio "github.com/whatap/golib/io"
	"github.com/whatap/golib/lang/pack/udp"
)

// versions: every integer literal compared with Ver in the udp sources, its neighbours, and the
// family borders.
func versions() []int32 {
	set := map[int32]bool{}
	re := regexp.MustCompile(`Ver\s*(?:>=|<=|>|<|==|!=)\s*([0-9]+)`)
	repo := os.Getenv("VERIF_REPO") // set by bin/mutants in scratch mode only
	if repo == "" {
		repo = "/repo"
	}
	files, _ := filepath.Glob(repo + "/lang/pack/udp/*.go")
	for _, f := range files {
		b, err := os.ReadFile(f)
		if err != nil {
			continue
		}
		for _, m := range re.FindAllStringSubmatch(string(b), -1) {
			n, _ := strconv.Atoi(m[1])
			for d := -1; d <= 1; d++ {
				set[int32(n+d)] = true
			}
		}
	}
	for _, fam := range [][2]int32{{10100, 10111}, {20100, 20105}, {30100, 30104}, {40000, 40001}, {50000, 50102}} {
		for v := fam[0]; v <= fam[1]; v++ {
			set[v] = true
		}
	}
	delete(set, -1)
	var out []int32
	for v := range set {
		if v > 0 {
			out = append(out, v)
		}
	}
	sort.Slice(out, func(i, j int) bool { return out[i] < out[j] })
	return out
}

var hints = map[string][]func(int) interface{}{
	"AbstractPack.Ver":   {},
	"AbstractPack.Flush": {}, // processing flag, not a wire field
	// the five counters travel as one comma-joined text: the domain the format defines
	"UdpActiveStatsPack.ActiveStats": {func(o int) interface{} { return []int16{int16(o), 0, -1, 32767, 5} }, func(o int) interface{} { return []int16{0, 0, 0, 0, 0} }},
	"UdpActiveStatsPack.Data":        {},
	// supplied by the receiver from the datagram header, not carried in the body
	"UdpRelayPack.Len":       {},
	"UdpRelayPack.RelayType": {},
}

type utype struct {
	tag  uint8
	rt   reflect.Type
	name string
}

func newOf(t utype, ver int32) udp.UdpPack {
	p := reflect.New(t.rt).Interface().(udp.UdpPack)
	p.SetVersion(ver)
	return p
}

func build(t utype, ver int32, base int, dev map[string]int) (udp.UdpPack, []enum.Slot) {
	obj := newOf(t, ver)
	f := &enum.Filler{Hints: hints, Skip: func(owner reflect.Type, sf reflect.StructField) bool {
		// parsed views filled by Process(), not wire fields
		k := sf.Type.String()
		return strings.Contains(k, "urlutil.URL") || sf.Type.Kind() == reflect.Map
	}}
	f.Fill(obj, func(slot string, n int) int {
		if c, ok := dev[slot]; ok {
			return c
		}
		if base == 1 && n > 1 {
			return 1
		}
		return 0
	})
	return obj, append([]enum.Slot{}, f.Slots...)
}

func enc(p udp.UdpPack) (b []byte, err interface{}) {
	defer func() {
		if r := recover(); r != nil {
			err = r
		}
	}()
	out := gio.NewDataOutputX()
	p.Write(out)
	return append([]byte{}, out.ToByteArray()...), nil
}

type ck struct {
	c       *evid.Ctx
	evals   int64
	nontriv int64
	mu      sync.Mutex
}

func family(v int32) string {
	switch {
	case v > 50000:
		return "go"
	case v > 40000:
		return "batch"
	case v > 30000:
		return "dotnet"
	case v > 20000:
		return "python"
	}
	return "php"
}

func (k *ck) viol(key, msg string) {
	k.c.Violation("C07:"+key, msg, map[string]interface{}{"engine": "E3", "detail": msg})
}

func strip(f string) string {
	if i := strings.Index(f, "["); i >= 0 {
		return f[:i]
	}
	return f
}

func (k *ck) roundTrip(t utype, ver int32, desc string, p udp.UdpPack) {
	atomic.AddInt64(&k.evals, 1)
	where := fmt.Sprintf("%s v%d %s", t.name, ver, desc)
	keyBase := fmt.Sprintf("%s:%s", t.name, family(ver))
	b, err := enc(p)
	if err != nil {
		k.viol(keyBase+":write-panic", fmt.Sprintf("%s: Write panicked: %v", where, err))
		return
	}
	try := func(process bool) (string, string) {
		d := newOf(t, ver)
		if f := reflect.ValueOf(d).Elem().FieldByName("Len"); f.IsValid() && t.name == "UdpRelayPack" {
			f.SetInt(int64(len(b))) // the receiver sets the payload length from the datagram header
		}
		in := gio.NewDataInputX(b)
		var perr interface{}
		func() {
			defer func() { perr = recover() }()
			d.Read(in)
			if process {
				d.Process()
			}
		}()
		if perr != nil {
			return "decode-panic", fmt.Sprintf("decoding %d bytes panicked: %v", len(b), perr)
		}
		if in.Available() != 0 {
			return "unconsumed", fmt.Sprintf("%d of %d bytes left unread (first differing field %s)", in.Available(), len(b), packs.Diff(p, d))
		}
		b2, e2 := enc(d)
		if e2 != nil || !bytes.Equal(b, b2) {
			return "reencode:" + strip(packs.Diff(p, d)), fmt.Sprintf("re-encoding what was read differs (first differing field %s)", packs.Diff(p, d))
		}
		return "", ""
	}
	cls, msg := try(false)
	if cls == "" {
		return
	}
	if strings.HasPrefix(cls, "reencode") {
		// packs whose Process() completes the decoding are judged after Process
		if c2, _ := try(true); c2 == "" {
			return
		}
	}
	k.viol(keyBase+":"+cls, where+": "+msg)
}

func (k *ck) agree(types []utype, vers []int32, kdev int) {
	dist := packs.NewDistinct(filepath.Join(evid.Root, "harness", "props", "c07", "distinguishing.json"))
	defer dist.Finish(k.c, "C07")
	encOf := func(t utype, ver int32, base int, dev map[string]int) func() []byte {
		return func() []byte {
			o, _ := build(t, ver, base, dev)
			b, err := enc(o)
			if err != nil {
				return nil
			}
			return b
		}
	}
	var wg sync.WaitGroup
	sem := make(chan struct{}, 16)
	for _, t := range types {
		for _, ver := range vers {
			t, ver := t, ver
			wg.Add(1)
			sem <- struct{}{}
			go func() {
				defer wg.Done()
				defer func() { <-sem }()
				for base := 0; base <= 1; base++ {
					o, slots := build(t, ver, base, nil)
					k.roundTrip(t, ver, fmt.Sprintf("base%d", base), o)
					for i, s := range slots {
						for alt := 0; alt < s.N; alt++ {
							if alt == base {
								continue
							}
							o1, _ := build(t, ver, base, map[string]int{s.Path: alt})
							dist.Probe(fmt.Sprintf("%s@%d", t.name, ver), fmt.Sprintf("%d|%s|%d", base, s.Path, alt), encOf(t, ver, base, nil), encOf(t, ver, base, map[string]int{s.Path: alt}))
							atomic.AddInt64(&k.nontriv, 1)
							k.roundTrip(t, ver, fmt.Sprintf("base%d %s:=alt%d", base, s.Path, alt), o1)
							if kdev < 2 {
								continue
							}
							for _, s2 := range slots[i+1:] {
								for alt2 := 0; alt2 < s2.N; alt2++ {
									if alt2 == base {
										continue
									}
									o2, _ := build(t, ver, base, map[string]int{s.Path: alt, s2.Path: alt2})
									atomic.AddInt64(&k.nontriv, 1)
									k.roundTrip(t, ver, fmt.Sprintf("base%d %s:=alt%d %s:=alt%d", base, s.Path, alt, s2.Path, alt2), o2)
								}
							}
						}
					}
				}
			}()
		}
	}
	wg.Wait()
}

// ---- pool ---------------------------------------------------------------------------------------------

func (k *ck) pool(types []utype, depth int) {
	for _, t := range types {
		// reference: what a never-used pack of this type looks like (first acquisition in this process)
		fresh := udp.CreatePack(t.tag, 50100)
		// ... and what Clear() leaves in a never-used pack (Index/Parent are reset to -1 there)
		cleared := newOf(t, 50100)
		cleared.Clear()
		isClean := func(p udp.UdpPack) string {
			a, b, cl := reflect.ValueOf(p).Elem(), reflect.ValueOf(fresh).Elem(), reflect.ValueOf(cleared).Elem()
			_ = cl
			var walk func(x, y reflect.Value, path string) string
			walk = func(x, y reflect.Value, path string) string {
				if x.Kind() == reflect.Struct {
					for i := 0; i < x.NumField(); i++ {
						n := x.Type().Field(i).Name
						if n == "Ver" {
							continue
						}
						if d := walk(x.Field(i), y.Field(i), path+"."+n); d != "" {
							return d
						}
					}
					return ""
				}
				if d := enum.DeepDiff(x, y, path, 0); d != "" {
					// nil vs empty containers are both "clean"
					if (x.Kind() == reflect.Slice || x.Kind() == reflect.Map) && x.Len() == 0 && y.Len() == 0 {
						return ""
					}
					return d
				}
				return ""
			}
			// clean = every field as constructed, or as Clear() leaves a never-used pack
			d1 := walk(a, b, "")
			if d1 == "" {
				return ""
			}
			var both func(x, y, z reflect.Value, path string) string
			both = func(x, y, z reflect.Value, path string) string {
				if x.Kind() == reflect.Struct {
					for i := 0; i < x.NumField(); i++ {
						n := x.Type().Field(i).Name
						if n == "Ver" {
							continue
						}
						if d := both(x.Field(i), y.Field(i), z.Field(i), path+"."+n); d != "" {
							return d
						}
					}
					return ""
				}
				if walk(x, y, path) == "" || walk(x, z, path) == "" {
					return ""
				}
				return path
			}
			return both(a, b, cl, "")
		}
		fillAll := func(p udp.UdpPack) {
			f := &enum.Filler{Hints: map[string][]func(int) interface{}{"AbstractPack.Ver": {}}, Skip: func(owner reflect.Type, sf reflect.StructField) bool {
				return strings.Contains(sf.Type.String(), "urlutil.URL")
			}}
			f.Fill(p, func(slot string, n int) int {
				if n > 1 {
					return 1
				}
				return 0
			})
			// maps filled by Process()
			pv := reflect.ValueOf(p).Elem()
			for i := 0; i < pv.NumField(); i++ {
				if pv.Field(i).Kind() == reflect.Map && pv.Field(i).CanSet() {
					m := reflect.MakeMap(pv.Field(i).Type())
					if m.Type().Key().Kind() == reflect.String && m.Type().Elem().Kind() == reflect.String {
						m.SetMapIndex(reflect.ValueOf("k"), reflect.ValueOf("v"))
					}
					pv.Field(i).Set(m)
				}
			}
		}
		// direct inspection of the released object itself
		p := udp.CreatePack(t.tag, 50100)
		fillAll(p)
		udp.ClosePack(p)
		atomic.AddInt64(&k.evals, 1)
		if d := isClean(p); d != "" {
			k.viol(fmt.Sprintf("%s:pool:%s", t.name, strings.TrimPrefix(d, ".")), fmt.Sprintf("%s: after ClosePack the released object still carries field %s from its previous use", t.name, d))
		}
		// all acquire / fill / release histories over two handles up to the given depth
		ops := []string{"acqA", "fillA", "relA", "acqB", "fillB", "relB"}
		// every history is executed from scratch (handles of one history are never touched by another)
		var run func(hist []string)
		run = func(hist []string) {
			var a, b udp.UdpPack
			for i, op := range hist {
				switch op {
				case "acqA", "acqB":
					var got udp.UdpPack
					if op == "acqA" {
						if a != nil {
							return
						}
						a = udp.CreatePack(t.tag, 50101)
						got = a
					} else {
						if b != nil {
							return
						}
						b = udp.CreatePack(t.tag, 10105)
						got = b
					}
					if i == len(hist)-1 {
						atomic.AddInt64(&k.evals, 1)
						if d := isClean(got); d != "" {
							k.viol(fmt.Sprintf("%s:pool:%s", t.name, strings.TrimPrefix(d, ".")), fmt.Sprintf("%s: after %v CreatePack returned an object carrying %s from a previous use", t.name, hist, d))
						}
					}
				case "fillA":
					if a == nil {
						return
					}
					fillAll(a)
				case "fillB":
					if b == nil {
						return
					}
					fillAll(b)
				case "relA":
					if a == nil {
						return
					}
					udp.ClosePack(a)
					a = nil
				case "relB":
					if b == nil {
						return
					}
					udp.ClosePack(b)
					b = nil
				}
			}
		}
		var rec func(hist []string)
		rec = func(hist []string) {
			if len(hist) > 0 {
				run(hist)
			}
			if len(hist) == depth {
				return
			}
			for _, op := range ops {
				rec(append(append([]string{}, hist...), op))
			}
		}
		rec(nil)
	}
}

// ---- masking ------------------------------------------------------------------------------------------

const secret = "S3CR3T"

func (k *ck) masking(maxTok int) {
	// "password=#" is the masked form itself: a string that already holds it next to a real password
	// (duplicated key) must come out without the real one, whichever occurrence is last
	tokens := []string{"a=1", "password=" + secret, "user=u", "x", "password=#"}
	seps := []string{" ", ";", "; ", " ;"}
	var conns []string
	// every token sequence up to maxTok with every choice of separator at every junction (a string may
	// mix blanks and semicolons)
	var rec func(cur string, n int)
	rec = func(cur string, n int) {
		if n > 0 {
			conns = append(conns, cur)
		}
		if n == maxTok {
			return
		}
		for _, t := range tokens {
			if n == 0 {
				rec(t, 1)
				continue
			}
			for _, sp := range seps {
				rec(cur+sp+t, n+1)
			}
		}
	}
	rec("", 0)
	type mk struct {
		name string
		mk   func(ver int32, dbc string) (udp.UdpPack, func() string)
	}
	kinds := []mk{
		{"UdpTxSqlPack", func(v int32, dbc string) (udp.UdpPack, func() string) {
			p := udp.NewUdpTxSqlPackVer(v)
			p.Dbc, p.Sql = dbc, "select 1"
			return p, func() string { return p.Dbc }
		}},
		{"UdpTxSqlParamPack", func(v int32, dbc string) (udp.UdpPack, func() string) {
			p := udp.NewUdpTxSqlParamPackVer(v)
			p.Dbc, p.Sql = dbc, "select 1"
			return p, func() string { return p.Dbc }
		}},
		{"UdpTxDbcPack", func(v int32, dbc string) (udp.UdpPack, func() string) {
			p := udp.NewUdpTxDbcPackVer(v)
			p.Dbc = dbc
			return p, func() string { return p.Dbc }
		}},
	}
	for _, kd := range kinds {
		// every version of the alphabet (each literal the sources compare Ver with, its neighbours,
		// the family borders): the gate that decides on masking must be the family's, in every pack type
		var wg sync.WaitGroup
		sem := make(chan struct{}, 16)
		for _, ver := range versions() {
			ver := ver
			wg.Add(1)
			sem <- struct{}{}
			go func() {
				defer func() { <-sem; wg.Done() }()
				defer func() {
					if r := recover(); r != nil {
						k.viol(kd.name+":masking:panic", fmt.Sprintf("%s v%d: encoding, decoding or Process() of a connection string panicked: %v", kd.name, ver, r))
					}
				}()
				for _, cs := range conns {
					atomic.AddInt64(&k.evals, 1)
					if strings.Contains(cs, secret) {
						atomic.AddInt64(&k.nontriv, 1)
					}
					// through the wire, as the agent receives it: ToPack = Read + Process
					p, _ := kd.mk(ver, cs)
					b, _ := enc(p)
					dec := udp.ToPack(p.GetPackType(), ver, b)
					got := reflect.ValueOf(dec).Elem().FieldByName("Dbc").String()
					fam := family(ver)
					if fam == "go" || fam == "php" {
						if strings.Contains(got, secret) {
							k.viol(kd.name+":"+fam+":password-left", fmt.Sprintf("%s v%d: connection string %q keeps the password after Process(): %q", kd.name, ver, cs, got))
						}
					} else if got != cs {
						k.viol(kd.name+":"+fam+":dbc-changed", fmt.Sprintf("%s v%d: connection string %q was altered to %q although this family does not send raw connection strings", kd.name, ver, cs, got))
					}
				}
			}()
		}
		wg.Wait()
	}
	// the other fields of the pack must not decide whether the password is masked: long SQL texts (the
	// packs cap the query at 32 KiB) with the short connection strings
	for _, kd := range kinds[:2] {
		for _, ver := range versions() {
			if f := family(ver); f != "go" && f != "php" {
				continue
			}
			for _, n := range []int{32767, 32768, 32769, 65535} {
				for _, cs := range []string{"password=" + secret, "a=1 password=" + secret, "a=1;password=" + secret + ";user=u"} {
					atomic.AddInt64(&k.evals, 1)
					atomic.AddInt64(&k.nontriv, 1)
					p, _ := kd.mk(ver, cs)
					reflect.ValueOf(p).Elem().FieldByName("Sql").SetString(strings.Repeat("s", n))
					b, err := enc(p)
					if err != nil {
						continue
					}
					var got string
					func() {
						defer func() { recover() }()
						dec := udp.ToPack(p.GetPackType(), ver, b)
						got = reflect.ValueOf(dec).Elem().FieldByName("Dbc").String()
					}()
					if strings.Contains(got, secret) {
						k.viol(kd.name+":"+family(ver)+":password-left:long-sql", fmt.Sprintf("%s v%d with a %d-byte SQL text: connection string %q keeps the password after Process(): %q", kd.name, ver, n, cs, got))
					}
				}
			}
		}
	}
	// information only: forms outside "key=value tokens"
	for _, cs := range []string{"password = " + secret, "PASSWORD=" + secret, "Password=" + secret + ";a=1"} {
		p := udp.NewUdpTxDbcPackVer(50100)
		p.Dbc = cs
		p.Process()
		if strings.Contains(p.Dbc, secret) {
			k.c.Info("connection string %q (outside the key=value token alphabet) keeps the password after Process(): %q", cs, p.Dbc)
		}
	}
	k.c.Cov["connection_strings"] = len(conns)
}

func Run(c *evid.Ctx) {
	k := &ck{c: c}
	var types []utype
	for t := 0; t < 256; t++ {
		var p udp.UdpPack
		func() {
			defer func() { recover() }()
			p = udp.CreatePack(uint8(t), 50100)
		}()
		if p == nil || reflect.ValueOf(p).IsNil() {
			continue
		}
		if p.GetPackType() != uint8(t) {
			k.viol("CreatePack:tag", fmt.Sprintf("CreatePack(%d) returns a pack of type %d", t, p.GetPackType()))
		}
		rt := reflect.TypeOf(p).Elem()
		types = append(types, utype{uint8(t), rt, rt.Name()})
	}
	vers := versions()
	c.Cov["pack_types"] = len(types)
	c.Cov["versions"] = vers
	kdev, depth, tok := 1, 4, 3
	if c.Thorough() {
		kdev, depth, tok = 2, 6, 4
	}
	k.pool(types, depth) // first: the reference objects must be first acquisitions
	// pack types with a write/read pair that the factory does not create (no pool for them)
	all := append([]utype{}, types...)
	for _, extra := range []udp.UdpPack{udp.NewUdpTxResultSetPack()} {
		known := false
		for _, t := range types {
			if t.tag == extra.GetPackType() {
				known = true
			}
		}
		if !known {
			rt := reflect.TypeOf(extra).Elem()
			all = append(all, utype{extra.GetPackType(), rt, rt.Name()})
		}
	}
	c.Cov["pack_types_outside_the_factory"] = len(all) - len(types)
	k.agree(all, vers, kdev)
	k.masking(tok)
	c.Count("evaluations", k.evals)
	c.Count("distinct_nontrivial", k.nontriv)
	c.Cov["rule"] = "one evaluation = one (pack type, protocol version, field assignment with at most k deviating slots) written and read back at the same version into a fresh pack (consumed exactly, byte-identical re-encode; judged after Process() where Process completes the decoding), or one pool history step, or one connection string through ToPack; versions are every literal compared with Ver in the sources with its neighbours plus the family borders"
	c.Sample(fmt.Sprintf("%s v%d base1 Fetch:=alt3", "UdpTxSqlPack", 20102))
	c.Sample("pool history [acqA fillA relA acqB]")
	c.Sample("a=1;password=" + secret + ";user=u")
	c.Assume("password key matching is the code's literal key 'password' in key=value tokens; spaced or upper-case forms are reported as information")
	c.Assume("sync.Pool reuse itself is not relied upon: the released object is inspected directly, and whatever object CreatePack returns must be clean")
}
