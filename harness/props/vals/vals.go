// Package vals describes tagged values on the harness side (Spec trees), builds golib values from
// them, encodes them with the independent reference encoder and compares decoded golib values
// structurally with a Spec. Shared by C02, C04 and C20.
package vals

import (
	"bytes"
	"fmt"
	"math"
	"strings"

	"verif/refenc"

	"github.com/whatap/golib/lang/value"
)

// Type codes, written down from the format description (DESIGN.md Appendix C), not imported.
const (
	TNull = 0
	TBool = 10
	TDec  = 20
	TInt  = 21
	TLong = 22
	TFlt  = 30
	TDbl  = 40
	TDSum = 45
	TLSum = 46
	TText = 50
	THash = 51
	TBlob = 60
	TIP4  = 61
	TList = 70
	TAI32 = 71
	TAF32 = 72
	TATxt = 73
	TAI64 = 74
	TMap  = 80
	TIMap = 81
)

var AllTypes = []byte{TNull, TBool, TDec, TInt, TLong, TFlt, TDbl, TDSum, TLSum, TText, THash, TBlob, TIP4, TList, TAI32, TAF32, TATxt, TAI64, TMap, TIMap}

// Spec is a harness-side description of a value.
type Spec struct {
	T     byte
	B     bool
	I     int64 // dec, int, long, hash; long-summary sum
	F     float64
	F32   float32
	S     string
	Bytes []byte
	Nil   bool // payload is nil rather than empty (blob, arrays)
	// summaries
	Count      int32
	MinF, MaxF float64
	MinI, MaxI int64
	I32s       []int32
	F32s       []float32
	I64s       []int64
	Strs       []string
	Items      []*Spec
	Keys       []string
	IKeys      []int32
}

func (s *Spec) String() string {
	switch s.T {
	case TNull:
		return "null"
	case TBool:
		return fmt.Sprintf("bool(%v)", s.B)
	case TDec:
		return fmt.Sprintf("dec(%d)", s.I)
	case TInt:
		return fmt.Sprintf("int(%d)", s.I)
	case TLong:
		return fmt.Sprintf("long(%d)", s.I)
	case TFlt:
		return fmt.Sprintf("float(%g/%08x)", s.F32, math.Float32bits(s.F32))
	case TDbl:
		return fmt.Sprintf("double(%g/%016x)", s.F, math.Float64bits(s.F))
	case TDSum:
		return fmt.Sprintf("dsum(%g,%d,%g,%g)", s.F, s.Count, s.MinF, s.MaxF)
	case TLSum:
		return fmt.Sprintf("lsum(%d,%d,%d,%d)", s.I, s.Count, s.MinI, s.MaxI)
	case TText:
		return fmt.Sprintf("text(%s)", clip(s.S))
	case THash:
		return fmt.Sprintf("hash(%d)", s.I)
	case TBlob:
		if s.Nil {
			return "blob(nil)"
		}
		return fmt.Sprintf("blob(%d bytes %x)", len(s.Bytes), clipB(s.Bytes))
	case TIP4:
		return fmt.Sprintf("ip4(%v)", s.Bytes)
	case TAI32:
		return fmt.Sprintf("int[](nil=%v %v)", s.Nil, clipS(fmt.Sprint(s.I32s)))
	case TAF32:
		return fmt.Sprintf("float[](nil=%v %v)", s.Nil, clipS(fmt.Sprint(s.F32s)))
	case TATxt:
		return fmt.Sprintf("text[](nil=%v %d items)", s.Nil, len(s.Strs))
	case TAI64:
		return fmt.Sprintf("long[](nil=%v %v)", s.Nil, clipS(fmt.Sprint(s.I64s)))
	case TList:
		return "list[" + joinSpecs(s.Items) + "]"
	case TMap:
		var p []string
		for i, k := range s.Keys {
			if i > 6 {
				p = append(p, "…")
				break
			}
			p = append(p, clip(k)+":"+s.Items[i].String())
		}
		return fmt.Sprintf("map(%d){%s}", len(s.Keys), strings.Join(p, ","))
	case TIMap:
		var p []string
		for i, k := range s.IKeys {
			if i > 6 {
				p = append(p, "…")
				break
			}
			p = append(p, fmt.Sprintf("%d:%s", k, s.Items[i].String()))
		}
		return fmt.Sprintf("intmap(%d){%s}", len(s.IKeys), strings.Join(p, ","))
	}
	return fmt.Sprintf("type%d", s.T)
}

func clip(s string) string {
	if len(s) > 24 {
		return fmt.Sprintf("%q…(%d)", s[:24], len(s))
	}
	return fmt.Sprintf("%q", s)
}
func clipS(s string) string {
	if len(s) > 60 {
		return s[:60] + "…"
	}
	return s
}
func clipB(b []byte) []byte {
	if len(b) > 8 {
		return b[:8]
	}
	return b
}
func joinSpecs(it []*Spec) string {
	var p []string
	for i, x := range it {
		if i > 6 {
			p = append(p, "…")
			break
		}
		p = append(p, x.String())
	}
	return strings.Join(p, ",")
}

// Build constructs the golib value through the public constructors and adders.
func Build(s *Spec) value.Value {
	switch s.T {
	case TNull:
		return value.NewNullValue()
	case TBool:
		return value.NewBoolValue(s.B)
	case TDec:
		return value.NewDecimalValue(s.I)
	case TInt:
		return value.NewIntValue(int32(s.I))
	case TLong:
		return value.NewLongValue(s.I)
	case TFlt:
		return value.NewFloatValue(s.F32)
	case TDbl:
		return value.NewDoubleValue(s.F)
	case TDSum:
		v := value.NewDoubleSummary()
		v.Sum, v.Count, v.Min, v.Max = s.F, s.Count, s.MinF, s.MaxF
		return v
	case TLSum:
		v := value.NewLongSummary()
		v.Sum, v.Count, v.Min, v.Max = s.I, s.Count, s.MinI, s.MaxI
		return v
	case TText:
		return value.NewTextValue(s.S)
	case THash:
		return value.NewTextHashValue(int32(s.I))
	case TBlob:
		if s.Nil {
			return value.NewBlobValue(nil)
		}
		return value.NewBlobValue(append([]byte{}, s.Bytes...))
	case TIP4:
		return value.NewIP4Value(append([]byte{}, s.Bytes...))
	case TAI32:
		if s.Nil {
			return value.NewIntArray(nil)
		}
		return value.NewIntArray(append([]int32{}, s.I32s...))
	case TAF32:
		if s.Nil {
			return value.NewFloatArray(nil)
		}
		return value.NewFloatArray(append([]float32{}, s.F32s...))
	case TATxt:
		if s.Nil {
			return value.NewTextArray(nil)
		}
		return value.NewTextArray(append([]string{}, s.Strs...))
	case TAI64:
		if s.Nil {
			return value.NewLongArray(nil)
		}
		return value.NewLongArray(append([]int64{}, s.I64s...))
	case TList:
		l := value.NewListValue(nil)
		for _, it := range s.Items {
			l.Add(Build(it))
		}
		return l
	case TMap:
		m := value.NewMapValue()
		for i, k := range s.Keys {
			m.Put(k, Build(s.Items[i]))
		}
		return m
	case TIMap:
		m := value.NewIntMapValue()
		for i, k := range s.IKeys {
			m.Put(k, Build(s.Items[i]))
		}
		return m
	}
	panic(fmt.Sprintf("Build: type %d", s.T))
}

// Ref appends the reference encoding (tag + body) of s.
func Ref(b *refenc.B, s *Spec) {
	b.U8(s.T)
	switch s.T {
	case TNull:
	case TBool:
		b.Bool(s.B)
	case TDec:
		b.Dec(s.I)
	case TInt, THash:
		b.I32(int32(s.I))
	case TLong:
		b.I64(s.I)
	case TFlt:
		b.F32(s.F32)
	case TDbl:
		b.F64(s.F)
	case TDSum:
		b.F64(s.F)
		b.I32(s.Count)
		b.F64(s.MinF)
		b.F64(s.MaxF)
	case TLSum:
		b.I64(s.I)
		b.I32(s.Count)
		b.I64(s.MinI)
		b.I64(s.MaxI)
	case TText:
		b.Text(s.S)
	case TBlob:
		b.Blob(s.Bytes)
	case TIP4:
		b.Raw(s.Bytes)
	case TAI32:
		b.ArrI32(s.I32s)
	case TAF32:
		b.ArrF32(s.F32s)
	case TATxt:
		b.ArrText(s.Strs)
	case TAI64:
		b.ArrI64(s.I64s)
	case TList:
		b.Dec(int64(len(s.Items)))
		for _, it := range s.Items {
			Ref(b, it)
		}
	case TMap:
		b.Dec(int64(len(s.Keys)))
		for i, k := range s.Keys {
			b.Text(k)
			Ref(b, s.Items[i])
		}
	case TIMap:
		b.Dec(int64(len(s.IKeys)))
		for i, k := range s.IKeys {
			b.I32(k)
			Ref(b, s.Items[i])
		}
	default:
		panic("Ref")
	}
}

// Same compares a golib value with a Spec structurally (own comparator, nil == empty, floats by
// bits); returns "" or where they differ.
func Same(s *Spec, v value.Value, path string) string {
	if v == nil {
		return path + ": decoded value is nil"
	}
	if v.GetValueType() != s.T {
		return fmt.Sprintf("%s: type code %d, expected %d", path, v.GetValueType(), s.T)
	}
	bad := func(got interface{}) string { return fmt.Sprintf("%s: got %v, expected %s", path, got, s.String()) }
	switch x := v.(type) {
	case *value.NullValue:
	case *value.BoolValue:
		if x.Val != s.B {
			return bad(x.Val)
		}
	case *value.DecimalValue:
		if x.Val != s.I {
			return bad(x.Val)
		}
	case *value.IntValue:
		if int64(x.Val) != s.I {
			return bad(x.Val)
		}
	case *value.LongValue:
		if x.Val != s.I {
			return bad(x.Val)
		}
	case *value.FloatValue:
		if math.Float32bits(x.Val) != math.Float32bits(s.F32) {
			return bad(x.Val)
		}
	case *value.DoubleValue:
		if math.Float64bits(x.Val) != math.Float64bits(s.F) {
			return bad(x.Val)
		}
	case *value.DoubleSummary:
		if math.Float64bits(x.Sum) != math.Float64bits(s.F) || x.Count != s.Count || math.Float64bits(x.Min) != math.Float64bits(s.MinF) || math.Float64bits(x.Max) != math.Float64bits(s.MaxF) {
			return bad(fmt.Sprint(x.Sum, x.Count, x.Min, x.Max))
		}
	case *value.LongSummary:
		if x.Sum != s.I || x.Count != s.Count || x.Min != s.MinI || x.Max != s.MaxI {
			return bad(fmt.Sprint(x.Sum, x.Count, x.Min, x.Max))
		}
	case *value.TextValue:
		if x.Val != s.S {
			return bad(clip(x.Val))
		}
	case *value.TextHashValue:
		if int64(x.Val) != s.I {
			return bad(x.Val)
		}
	case *value.BlobValue:
		if !bytes.Equal(x.Val, s.Bytes) {
			return bad(fmt.Sprintf("%d bytes", len(x.Val)))
		}
	case *value.IP4Value:
		if !bytes.Equal(x.Val, s.Bytes) {
			return bad(x.Val)
		}
	case *value.IntArray:
		if len(x.Val) != len(s.I32s) {
			return bad(len(x.Val))
		}
		for i := range x.Val {
			if x.Val[i] != s.I32s[i] {
				return bad(x.Val)
			}
		}
	case *value.FloatArray:
		if len(x.Val) != len(s.F32s) {
			return bad(len(x.Val))
		}
		for i := range x.Val {
			if math.Float32bits(x.Val[i]) != math.Float32bits(s.F32s[i]) {
				return bad(x.Val)
			}
		}
	case *value.TextArray:
		if len(x.Val) != len(s.Strs) {
			return bad(len(x.Val))
		}
		for i := range x.Val {
			if x.Val[i] != s.Strs[i] {
				return bad(i)
			}
		}
	case *value.LongArray:
		if len(x.Val) != len(s.I64s) {
			return bad(len(x.Val))
		}
		for i := range x.Val {
			if x.Val[i] != s.I64s[i] {
				return bad(x.Val)
			}
		}
	case *value.ListValue:
		if x.Size() != len(s.Items) {
			return fmt.Sprintf("%s: list of %d items, expected %d", path, x.Size(), len(s.Items))
		}
		for i, it := range s.Items {
			if m := Same(it, x.Get(i), fmt.Sprintf("%s[%d]", path, i)); m != "" {
				return m
			}
		}
	case *value.MapValue:
		if x.Size() != len(s.Keys) {
			return fmt.Sprintf("%s: map of %d entries, expected %d", path, x.Size(), len(s.Keys))
		}
		en := x.Keys()
		for i, k := range s.Keys {
			if !en.HasMoreElements() {
				return fmt.Sprintf("%s: key enumeration ends after %d entries", path, i)
			}
			if g := en.NextString(); g != k {
				return fmt.Sprintf("%s: entry %d has key %s, expected %s (insertion order)", path, i, clip(g), clip(k))
			}
			if m := Same(s.Items[i], x.Get(k), fmt.Sprintf("%s[%s]", path, clip(k))); m != "" {
				return m
			}
		}
	case *value.IntMapValue:
		if x.Size() != len(s.IKeys) {
			return fmt.Sprintf("%s: int-map of %d entries, expected %d", path, x.Size(), len(s.IKeys))
		}
		en := x.Keys()
		for i, k := range s.IKeys {
			if !en.HasMoreElements() {
				return fmt.Sprintf("%s: key enumeration ends after %d entries", path, i)
			}
			if g := en.NextInt(); g != k {
				return fmt.Sprintf("%s: entry %d has key %d, expected %d (insertion order)", path, i, g, k)
			}
			if m := Same(s.Items[i], x.Get(k), fmt.Sprintf("%s[%d]", path, k)); m != "" {
				return m
			}
		}
	default:
		return fmt.Sprintf("%s: unexpected concrete type %T", path, v)
	}
	return ""
}

// ---- alphabets -----------------------------------------------------------------------------------

func rep(b byte, n int) []byte { return bytes.Repeat([]byte{b}, n) }

// Scalars returns the scalar payload alphabet of every non-container type. level 0 = one
// representative per type, 1 = small, 2 = full.
func Scalars(level int) []*Spec {
	var out []*Spec
	add := func(s ...*Spec) { out = append(out, s...) }
	add(&Spec{T: TNull})
	add(&Spec{T: TBool, B: true})
	add(&Spec{T: TDec, I: -129})
	add(&Spec{T: TInt, I: math.MinInt32})
	add(&Spec{T: TLong, I: math.MaxInt64})
	add(&Spec{T: TFlt, F32: 1.5})
	add(&Spec{T: TDbl, F: -2.25})
	add(&Spec{T: TDSum, F: 10.5, Count: 3, MinF: 1.5, MaxF: 6})
	add(&Spec{T: TLSum, I: 10, Count: 3, MinI: 1, MaxI: 6})
	add(&Spec{T: TText, S: "a"})
	add(&Spec{T: THash, I: -7})
	add(&Spec{T: TBlob, Bytes: []byte{1, 2}})
	add(&Spec{T: TIP4, Bytes: []byte{10, 0, 0, 255}})
	add(&Spec{T: TAI32, I32s: []int32{1, -1}})
	add(&Spec{T: TAF32, F32s: []float32{1.5}})
	add(&Spec{T: TATxt, Strs: []string{"x", ""}})
	add(&Spec{T: TAI64, I64s: []int64{math.MinInt64}})
	if level == 0 {
		return out
	}
	add(&Spec{T: TBool, B: false})
	for _, v := range []int64{0, 1, -1, 127, 128, -128, 32767, 32768, -32768, -32769, 8388607, 8388608, -8388608, -8388609, math.MaxInt32, math.MaxInt32 + 1, math.MinInt32, math.MinInt32 - 1, 0x7fffffffff, 0x8000000000, -0x8000000000, -0x8000000001, math.MaxInt64, math.MinInt64} {
		add(&Spec{T: TDec, I: v})
	}
	for _, v := range []int64{0, 1, -1, math.MaxInt32} {
		add(&Spec{T: TInt, I: v})
		add(&Spec{T: THash, I: v})
	}
	for _, v := range []int64{0, 1, -1, math.MinInt64} {
		add(&Spec{T: TLong, I: v})
	}
	for _, f := range []float32{0, float32(math.Copysign(0, -1)), -1, math.MaxFloat32, math.SmallestNonzeroFloat32, float32(math.Inf(1)), float32(math.Inf(-1))} {
		add(&Spec{T: TFlt, F32: f})
	}
	for _, f := range []float64{0, math.Copysign(0, -1), 1, math.MaxFloat64, math.SmallestNonzeroFloat64, math.Inf(1), math.Inf(-1)} {
		add(&Spec{T: TDbl, F: f})
	}
	// summaries: each of the four fields deviating from a base
	add(&Spec{T: TDSum}, &Spec{T: TDSum, F: 10.5, Count: 4, MinF: 1.5, MaxF: 6}, &Spec{T: TDSum, F: 11, Count: 3, MinF: 1.5, MaxF: 6}, &Spec{T: TDSum, F: 10.5, Count: 3, MinF: -1, MaxF: 6}, &Spec{T: TDSum, F: 10.5, Count: 3, MinF: 1.5, MaxF: 7})
	add(&Spec{T: TLSum}, &Spec{T: TLSum, I: 10, Count: 4, MinI: 1, MaxI: 6}, &Spec{T: TLSum, I: 11, Count: 3, MinI: 1, MaxI: 6}, &Spec{T: TLSum, I: 10, Count: 3, MinI: -1, MaxI: 6}, &Spec{T: TLSum, I: 10, Count: 3, MinI: 1, MaxI: 7})
	add(&Spec{T: TText, S: ""}, &Spec{T: TText, S: "b"}, &Spec{T: TText, S: "ab"}, &Spec{T: TText, S: "한글"})
	add(&Spec{T: TBlob, Nil: true}, &Spec{T: TBlob, Bytes: []byte{}}, &Spec{T: TBlob, Bytes: []byte{1}}, &Spec{T: TBlob, Bytes: []byte{1, 3}}, &Spec{T: TBlob, Bytes: []byte{0xff}})
	add(&Spec{T: TIP4, Bytes: []byte{0, 0, 0, 0}}, &Spec{T: TIP4, Bytes: []byte{255, 255, 255, 255}}, &Spec{T: TIP4, Bytes: []byte{127, 0, 0, 1}})
	add(&Spec{T: TAI32, Nil: true}, &Spec{T: TAI32, I32s: []int32{}}, &Spec{T: TAI32, I32s: []int32{math.MinInt32}}, &Spec{T: TAI32, I32s: []int32{1, 0}})
	add(&Spec{T: TAF32, Nil: true}, &Spec{T: TAF32, F32s: []float32{}}, &Spec{T: TAF32, F32s: []float32{-1, math.MaxFloat32}})
	add(&Spec{T: TATxt, Nil: true}, &Spec{T: TATxt, Strs: []string{}}, &Spec{T: TATxt, Strs: []string{"x"}}, &Spec{T: TATxt, Strs: []string{"x", "y"}})
	add(&Spec{T: TAI64, Nil: true}, &Spec{T: TAI64, I64s: []int64{}}, &Spec{T: TAI64, I64s: []int64{1, math.MaxInt64}})
	if level == 1 {
		return out
	}
	add(&Spec{T: TText, S: string(rep('x', 253))}, &Spec{T: TText, S: string(rep('x', 254))}, &Spec{T: TText, S: string(rep('y', 65535))}, &Spec{T: TText, S: string(rep('y', 65536))})
	add(&Spec{T: TBlob, Bytes: rep(7, 253)}, &Spec{T: TBlob, Bytes: rep(7, 254)}, &Spec{T: TBlob, Bytes: rep(7, 65535)}, &Spec{T: TBlob, Bytes: rep(7, 65536)})
	big := make([]int32, 32767)
	big[32766] = -5
	add(&Spec{T: TAI32, I32s: big})
	bigs := make([]string, 256)
	bigs[255] = "z"
	add(&Spec{T: TATxt, Strs: bigs})
	// NaN payloads: in the codec domain (bit-exact), excluded from the comparison laws by the caller
	add(&Spec{T: TFlt, F32: math.Float32frombits(0x7fc00001)}, &Spec{T: TFlt, F32: math.Float32frombits(0xff800001)})
	add(&Spec{T: TDbl, F: math.Float64frombits(0x7ff8000000000001)}, &Spec{T: TDbl, F: math.Float64frombits(0xfff0000000000001)})
	return out
}

func IsNaN(s *Spec) bool {
	switch s.T {
	case TFlt:
		return s.F32 != s.F32
	case TDbl:
		return s.F != s.F
	case TDSum:
		return s.F != s.F || s.MinF != s.MinF || s.MaxF != s.MaxF
	case TAF32:
		for _, f := range s.F32s {
			if f != f {
				return true
			}
		}
	case TList, TMap, TIMap:
		for _, it := range s.Items {
			if IsNaN(it) {
				return true
			}
		}
	}
	return false
}

func List(items ...*Spec) *Spec { return &Spec{T: TList, Items: items} }
func Map(keys []string, items ...*Spec) *Spec {
	return &Spec{T: TMap, Keys: keys, Items: items}
}
func IMap(keys []int32, items ...*Spec) *Spec {
	return &Spec{T: TIMap, IKeys: keys, Items: items}
}
