// Package c15 decides C15: hashes and identifier encodings are the stated pure functions and
// bijections — bounded exhaustive enumeration (E3) against standard-library and independent
// reference implementations, golden digests for value stability.
package c15

import (
	"crypto/sha256"
	"encoding/binary"
	"encoding/hex"
	"encoding/json"
	"fmt"
	"hash/crc32"
	"math"
	"os"
	"path/filepath"
	"sort"
	"strconv"
	"strings"
	"sync"
	"sync/atomic"

	"verif/engine/enum"
	"verif/engine/evid"
	"verif/engine/shard"

	"github.com/whatap/golib/util/bitutil"
	"github.com/whatap/golib/util/hash"
	"github.com/whatap/golib/util/hexa32"
	"github.com/whatap/golib/util/hll"
	"github.com/whatap/golib/util/iputil"
	"github.com/whatap/golib/util/stringutil"
)

// ---- references -------------------------------------------------------------------------------------

// refHash64: table-driven CRC with a 64-bit register: crc = (crc >>> 8) ^ signext32to64(T[(crc^b)&0xff]),
// all-ones start, final inversion, T = IEEE CRC-32 table.
func refHash64(b []byte) int64 {
	crc := ^uint64(0)
	for _, c := range b {
		crc = crc>>8 ^ uint64(int64(int32(crc32.IEEETable[byte(crc)^c])))
	}
	return int64(^crc)
}

// refHash64v2: two 32-bit table lanes sharing one shifted 64-bit register.
func refHash64v2(b []byte) int64 {
	if len(b) == 0 {
		return 0
	}
	crc := ^uint64(0)
	for _, c := range b {
		crc >>= 8
		lo := uint64(crc32.IEEETable[byte(crc)^c])
		hi := uint64(crc32.IEEETable[byte(crc>>32)^c])
		crc ^= lo
		crc ^= hi << 32
	}
	return int64(^crc)
}

// refMurmur32: MurmurHash2 as ported by stream-lib (tail bytes taken from the end of the input),
// unsigned byte reading.
func refMurmur32(data []byte, seed uint32) uint32 {
	const m = 0x5bd1e995
	n := len(data)
	h := seed ^ uint32(n)
	i := 0
	for ; i+4 <= n; i += 4 {
		k := binary.LittleEndian.Uint32(data[i:])
		k *= m
		k ^= k >> 24
		k *= m
		h *= m
		h ^= k
	}
	switch n - i {
	case 3:
		h ^= uint32(data[n-3]) << 16
		fallthrough
	case 2:
		h ^= uint32(data[n-2]) << 8
		fallthrough
	case 1:
		h ^= uint32(data[n-1])
		h *= m
	}
	h ^= h >> 13
	h *= m
	h ^= h >> 15
	return h
}

func refMurmurLong(d uint64) uint32 {
	const m = uint32(0x5bd1e995)
	mix := func(x uint32) uint32 { return (x ^ x>>24) * m }
	h := mix(uint32(d * uint64(m)))
	h *= m
	h ^= mix(uint32((d >> 32) * uint64(m)))
	h ^= h >> 13
	h *= m
	h ^= h >> 15
	return h
}

func refMurmur64(data []byte, seed uint32) uint64 {
	const m = uint64(0xc6a4a7935bd1e995)
	n := len(data)
	h := uint64(seed) ^ uint64(n)*m
	i := 0
	for ; i+8 <= n; i += 8 {
		k := binary.LittleEndian.Uint64(data[i:])
		k *= m
		k ^= k >> 47
		k *= m
		h ^= k
		h *= m
	}
	if rem := n - i; rem > 0 {
		var t [8]byte
		copy(t[:], data[i:])
		h ^= binary.LittleEndian.Uint64(t[:])
		h *= m
	}
	h ^= h >> 47
	h *= m
	h ^= h >> 47
	return h
}

func refHashCode(s string) int {
	h := 0
	p := 1
	for i := len(s) - 1; i >= 0; i-- {
		h += int(s[i]) * p
		p *= 31
	}
	return h
}

func refBase32(n int64) string {
	if n == math.MinInt64 {
		return "z8000000000000"
	}
	if n >= 0 && n < 10 {
		return strconv.FormatInt(n, 10)
	}
	if n < 0 {
		return "z" + strconv.FormatInt(-n, 32)
	}
	return "x" + strconv.FormatInt(n, 32)
}

// ---- domains ----------------------------------------------------------------------------------------

func shortStrings(maxLen int, f func(b []byte)) {
	f([]byte{})
	buf := make([]byte, maxLen)
	var rec func(n, i int)
	rec = func(n, i int) {
		if i == n {
			f(buf[:n])
			return
		}
		for c := 0; c < 256; c++ {
			buf[i] = byte(c)
			rec(n, i+1)
		}
	}
	for n := 1; n <= maxLen; n++ {
		rec(n, 0)
	}
}

func families() [][]byte {
	var out [][]byte
	for n := 3; n <= 300; n++ {
		cnt := make([]byte, n)
		ff := make([]byte, n)
		for i := range cnt {
			cnt[i] = byte(i*13 + 5)
			ff[i] = 0xff
		}
		out = append(out, cnt, ff)
		if n <= 40 {
			for bit := 0; bit < n*8; bit += 7 {
				w := make([]byte, n)
				w[bit/8] = 1 << uint(bit%8)
				out = append(out, w)
			}
		}
	}
	return out
}

type golden map[string]string

func goldenPath() string { return filepath.Join(evid.Root, "harness", "props", "c15", "golden.json") }

func Run(c *evid.Ctx) {
	var evals int64
	var mu sync.Mutex
	digests := map[string][]byte{}
	viol := func(key, msg string) {
		c.Violation("C15:"+key, msg, map[string]interface{}{"engine": "E3", "detail": msg})
	}

	// -- hashes over byte strings ---------------------------------------------------------------
	maxLen := 2
	hs := map[string]interface {
		Write([]byte) (int, error)
		Sum([]byte) []byte
	}{}
	names := []string{"Hash", "Hash64", "Hash64v2", "MurmurHashByte", "MurmurHashLongByte", "HashCode"}
	for _, n := range names {
		hs[n] = sha256.New()
	}
	var w8 [8]byte
	checkBytes := func(b []byte, digest bool) {
		evals += 9
		s := string(b)
		h := hash.Hash(b)
		if uint32(h) != crc32.ChecksumIEEE(b) {
			viol("Hash:crc32", fmt.Sprintf("Hash(%x)=%08x, CRC-32/IEEE is %08x", clip(b), uint32(h), crc32.ChecksumIEEE(b)))
		}
		if hash.HashStr(s) != h {
			viol("HashStr", fmt.Sprintf("HashStr differs from Hash of the string's bytes for %x", clip(b)))
		}
		h64 := hash.Hash64(b)
		if h64 != refHash64(b) {
			viol("Hash64:reference", fmt.Sprintf("Hash64(%x)=%016x, reference CRC variant %016x", clip(b), uint64(h64), uint64(refHash64(b))))
		}
		if hash.Hash64Str(s) != h64 {
			viol("Hash64Str", fmt.Sprintf("Hash64Str differs from Hash64 for %x", clip(b)))
		}
		v2a, v2b := hash.Hash64v2(b), hash.Hash64V2(b)
		if v2a != v2b {
			viol("Hash64v2:agree", fmt.Sprintf("Hash64v2(%x)=%016x but Hash64V2=%016x", clip(b), uint64(v2a), uint64(v2b)))
		}
		if v2a != refHash64v2(b) {
			viol("Hash64v2:reference", fmt.Sprintf("Hash64v2(%x)=%016x, reference %016x", clip(b), uint64(v2a), uint64(refHash64v2(b))))
		}
		if hash.Hash64StrV2(s) != v2b {
			viol("Hash64StrV2", fmt.Sprintf("Hash64StrV2 differs from Hash64V2 for %x", clip(b)))
		}
		// the address hash: the square of the big-endian int for 4 bytes, the big-endian long for 8,
		// the 32-bit hash otherwise
		wantAddr := int64(h)
		switch len(b) {
		case 4:
			x := int64(int32(binary.BigEndian.Uint32(b)))
			wantAddr = x * x
		case 8:
			wantAddr = int64(binary.BigEndian.Uint64(b))
		}
		if g := hash.HashAddr(b); g != wantAddr {
			viol("HashAddr", fmt.Sprintf("HashAddr(%x)=%d, expected %d", clip(b), g, wantAddr))
		}
		if g := hash.GetLongHash(s); g != v2a {
			viol("GetLongHash", fmt.Sprintf("GetLongHash differs from Hash64v2 for %x", clip(b)))
		}
		m32 := hll.MurmurHashByte(b)
		if m32 != refMurmur32(b, 0xe17a1465) {
			viol("MurmurHashByte:reference", fmt.Sprintf("MurmurHashByte(%x)=%08x, reference %08x", clip(b), m32, refMurmur32(b, 0xe17a1465)))
		}
		if hll.MurmurHashByteSeed(b, 7) != refMurmur32(b, 7) {
			viol("MurmurHashByteSeed:reference", fmt.Sprintf("MurmurHashByteSeed(%x,7) differs from the reference", clip(b)))
		}
		m64 := hll.MurmurHashLongByte(b, int32(len(b)))
		if m64 != refMurmur64(b, 0xe17a1465) {
			viol("MurmurHashLongByte:reference", fmt.Sprintf("MurmurHashLongByte(%x)=%016x, reference %016x", clip(b), m64, refMurmur64(b, 0xe17a1465)))
		}
		hc := stringutil.HashCode(s)
		if hc != refHashCode(s) {
			viol("HashCode", fmt.Sprintf("HashCode(%x)=%d, sum b*31^k is %d", clip(b), hc, refHashCode(s)))
		}
		if digest {
			for n, v := range map[string]uint64{"Hash": uint64(uint32(h)), "Hash64": uint64(h64), "Hash64v2": uint64(v2a), "MurmurHashByte": uint64(m32), "MurmurHashLongByte": m64, "HashCode": uint64(hc)} {
				binary.BigEndian.PutUint64(w8[:], v)
				hs[n].Write(w8[:])
			}
		}
	}
	// nil input
	checkBytes(nil, false)
	shortStrings(maxLen, func(b []byte) { checkBytes(b, true) })
	for _, b := range families() {
		checkBytes(b, true)
	}
	// the 64-bit murmur takes the number of bytes to hash: every prefix length of buffers up to 40 bytes
	for _, b := range families() {
		if len(b) > 40 {
			continue
		}
		for n := 0; n <= len(b); n++ {
			evals++
			if got, want := hll.MurmurHashLongByte(b, int32(n)), refMurmur64(b[:n], 0xe17a1465); got != want {
				viol("MurmurHashLongByte:prefix", fmt.Sprintf("MurmurHashLongByte(%x, %d)=%016x, the reference hash of the first %d bytes is %016x", clip(b), n, got, n, want))
				break
			}
		}
	}
	for _, n := range names {
		digests["bytes<=2+families:"+n] = hs[n].Sum(nil)
	}
	if c.Thorough() {
		// every byte string of length 3 (16.7M), in parallel, reference comparison only
		enum.ParallelRange(1<<24, func(lo, hi uint64) {
			b := make([]byte, 3)
			for v := lo; v < hi; v++ {
				b[0], b[1], b[2] = byte(v>>16), byte(v>>8), byte(v)
				if uint32(hash.Hash(b)) != crc32.ChecksumIEEE(b) || hash.Hash64(b) != refHash64(b) || hash.Hash64v2(b) != hash.Hash64V2(b) || hash.Hash64v2(b) != refHash64v2(b) ||
					hll.MurmurHashByte(b) != refMurmur32(b, 0xe17a1465) || hll.MurmurHashLongByte(b, 3) != refMurmur64(b, 0xe17a1465) {
					viol("length3", fmt.Sprintf("a hash of %x differs from its reference", b))
				}
			}
			atomic.AddInt64(&evals, int64(hi-lo)*6)
		})
	}
	// -- murmur on integers ---------------------------------------------------------------------------
	intRange := uint64(1 << 24)
	if c.Thorough() {
		intRange = 1 << 32
	}
	hm := sha256.New()
	var hmMu sync.Mutex
	part := map[uint64][]byte{}
	enum.ParallelRange(intRange, func(lo, hi uint64) {
		hh := sha256.New()
		var w [4]byte
		for v := lo; v < hi; v++ {
			g := hll.MurmurHash(uint32(v))
			if g != refMurmurLong(v) {
				viol("MurmurHash:reference", fmt.Sprintf("MurmurHash(%d)=%08x, reference %08x", v, g, refMurmurLong(v)))
			}
			if v < 1<<24 {
				binary.BigEndian.PutUint32(w[:], g)
				hh.Write(w[:])
			}
		}
		atomic.AddInt64(&evals, int64(hi-lo))
		hmMu.Lock()
		if lo < 1<<24 {
			part[lo] = hh.Sum(nil)
		}
		hmMu.Unlock()
	})
	var los []uint64
	for lo := range part {
		los = append(los, lo)
	}
	sort.Slice(los, func(i, j int) bool { return los[i] < los[j] })
	for _, lo := range los {
		hm.Write(part[lo])
	}
	if !c.Thorough() {
		digests["uint32<2^24:MurmurHash"] = hm.Sum(nil)
	}
	for _, v := range enum.Int64Boundaries() {
		evals++
		if g := hll.MurmurHashLong(uint64(v)); g != refMurmurLong(uint64(v)) {
			viol("MurmurHashLong:reference", fmt.Sprintf("MurmurHashLong(%d)=%08x, reference %08x", v, g, refMurmurLong(uint64(v))))
		}
	}
	// -- hexa32 ---------------------------------------------------------------------------------------
	seen := map[string]int64{}
	hexOne := func(n int64, track bool) {
		s := hexa32.ToString32(n)
		if s != refBase32(n) {
			viol("hexa32:form", fmt.Sprintf("ToString32(%d)=%q, documented form is %q", n, s, refBase32(n)))
		}
		if back := hexa32.ToLong32(s); back != n {
			viol("hexa32:bijection", fmt.Sprintf("ToLong32(ToString32(%d)=%q)=%d", n, s, back))
		}
		if track {
			mu.Lock()
			if o, ok := seen[s]; ok && o != n {
				viol("hexa32:injective", fmt.Sprintf("%d and %d both encode to %q", o, n, s))
			}
			seen[s] = n
			mu.Unlock()
		}
	}
	span := int64(1 << 20)
	if c.Thorough() {
		span = 1 << 26
	}
	enum.ParallelRange(uint64(2*span+1), func(lo, hi uint64) {
		for v := lo; v < hi; v++ {
			hexOne(int64(v)-span, false)
		}
		atomic.AddInt64(&evals, int64(hi-lo)*2)
	})
	for k := 0; k <= 12; k++ {
		p := int64(1) << uint(5*k)
		for d := int64(-64); d <= 64; d++ {
			hexOne(p+d, true)
			hexOne(-p+d, true)
			evals += 4
		}
	}
	for d := int64(0); d <= 64; d++ {
		hexOne(math.MaxInt64-d, true)
		hexOne(math.MinInt64+d, true)
		evals += 4
	}
	for _, v := range enum.Int64Boundaries() {
		hexOne(v, true)
		evals += 2
	}
	// -- bit compose / split -------------------------------------------------------------------------
	for h := 0; h < 256; h++ {
		for l := 0; l < 256; l++ {
			k := bitutil.Composite16(byte(h), byte(l))
			evals++
			if bitutil.GetHigh16(k) != byte(h) || bitutil.GetLow16(k) != byte(l) || uint16(k) != uint16(h)<<8|uint16(l) {
				viol("bitutil:16", fmt.Sprintf("Composite16(%d,%d)=%d splits to %d,%d", h, l, k, bitutil.GetHigh16(k), bitutil.GetLow16(k)))
			}
		}
	}
	for v := 0; v < 1<<16; v++ {
		k := int16(uint16(v))
		evals++
		if bitutil.Composite16(bitutil.GetHigh16(k), bitutil.GetLow16(k)) != k {
			viol("bitutil:16:compose-split", fmt.Sprintf("Composite16(split(%d)) != %d", k, k))
		}
	}
	var b16 []int16
	for _, v := range enum.Int32Boundaries() {
		if v >= math.MinInt16 && v <= math.MaxInt16 {
			b16 = append(b16, int16(v))
		}
	}
	check32 := func(h, l int16) {
		k := bitutil.Composite32(h, l)
		if bitutil.GetHigh32(k) != h || bitutil.GetLow32(k) != l || uint32(k) != uint32(uint16(h))<<16|uint32(uint16(l)) {
			viol("bitutil:32", fmt.Sprintf("Composite32(%d,%d)=%d splits to %d,%d", h, l, k, bitutil.GetHigh32(k), bitutil.GetLow32(k)))
		}
	}
	if c.Thorough() {
		enum.ParallelRange(1<<32, func(lo, hi uint64) {
			for v := lo; v < hi; v++ {
				check32(int16(uint16(v>>16)), int16(uint16(v)))
				k := int32(uint32(v))
				if bitutil.Composite32(bitutil.GetHigh32(k), bitutil.GetLow32(k)) != k {
					viol("bitutil:32:compose-split", fmt.Sprintf("Composite32(split(%d)) != %d", k, k))
				}
			}
			atomic.AddInt64(&evals, int64(hi-lo)*2)
		})
	} else {
		for _, h := range b16 {
			for _, l := range b16 {
				check32(h, l)
				evals++
			}
		}
		for _, k := range enum.Int32Boundaries() {
			evals++
			if bitutil.Composite32(bitutil.GetHigh32(k), bitutil.GetLow32(k)) != k {
				viol("bitutil:32:compose-split", fmt.Sprintf("Composite32(split(%d)) != %d", k, k))
			}
		}
	}
	b32 := enum.Int32Boundaries()
	for _, h := range b32 {
		for _, l := range b32 {
			evals++
			k := bitutil.Composite64(h, l)
			if bitutil.GetHigh64(k) != h || bitutil.GetLow64(k) != l || uint64(k) != uint64(uint32(h))<<32|uint64(uint32(l)) {
				viol("bitutil:64", fmt.Sprintf("Composite64(%d,%d)=%d splits to %d,%d", h, l, k, bitutil.GetHigh64(k), bitutil.GetLow64(k)))
			}
			if bitutil.SetHigh64(bitutil.Composite64(7, l), h) != k || bitutil.SetLow64(bitutil.Composite64(h, -9), l) != k {
				viol("bitutil:64:set", fmt.Sprintf("SetHigh64/SetLow64 do not rebuild Composite64(%d,%d)", h, l))
			}
		}
	}
	for _, k := range enum.Int64Boundaries() {
		evals++
		if bitutil.Composite64(bitutil.GetHigh64(k), bitutil.GetLow64(k)) != k {
			viol("bitutil:64:compose-split", fmt.Sprintf("Composite64(split(%d)) != %d", k, k))
		}
	}
	// -- IPv4 ---------------------------------------------------------------------------------------
	ipOne := func(i int32) {
		b := iputil.ToBytesFrInt(i)
		s := iputil.ToString(b)
		want := fmt.Sprintf("%d.%d.%d.%d", byte(uint32(i)>>24), byte(uint32(i)>>16), byte(uint32(i)>>8), byte(i))
		if s != want {
			viol("ip:ToString", fmt.Sprintf("ToString(ToBytesFrInt(%d))=%q, dotted quad is %q", i, s, want))
		}
		if back := iputil.ToInt(iputil.ToBytes(s)); back != i {
			viol("ip:round-trip", fmt.Sprintf("ToInt(ToBytes(%q))=%d, expected %d", s, back, i))
		}
		if iputil.ToStringInt(i) != want || iputil.ToStringFrInt(i) != want {
			viol("ip:ToStringInt", fmt.Sprintf("ToStringInt(%d) != %q", i, want))
		}
	}
	if c.Thorough() {
		enum.ParallelRange(1<<32, func(lo, hi uint64) {
			for v := lo; v < hi; v++ {
				ipOne(int32(uint32(v)))
			}
			atomic.AddInt64(&evals, int64(hi-lo)*3)
		})
	} else {
		// two free octets at every pair of positions
		for p := 0; p < 4; p++ {
			for q := p + 1; q < 4; q++ {
				p, q := p, q
				enum.ParallelRange(1<<16, func(lo, hi uint64) {
					for v := lo; v < hi; v++ {
						var o [4]byte
						o = [4]byte{10, 200, 0, 255}
						o[p], o[q] = byte(v>>8), byte(v)
						ipOne(int32(binary.BigEndian.Uint32(o[:])))
					}
					atomic.AddInt64(&evals, int64(hi-lo)*3)
				})
			}
		}
	}
	for _, mal := range []struct{ in, want string }{{"", "0.0.0.0"}, {"1.2.3", "0.0.0.0"}, {"1.2.3.4.5", "0.0.0.0"}, {"a.b.c.d", "0.0.0.0"}, {"256.1.1.1", "0.1.1.1"}, {"1.2.3.x", "1.2.3.0"}} {
		evals++
		if g := iputil.ToString(iputil.ToBytes(mal.in)); g != mal.want {
			viol("ip:malformed", fmt.Sprintf("ToString(ToBytes(%q))=%q, documented result %q", mal.in, g, mal.want))
		}
	}
	if g := iputil.ToString(nil); g != "0.0.0.0" {
		viol("ip:nil", "ToString(nil) = "+g)
	}

	// -- golden digests: values never change ------------------------------------------------------
	got := golden{}
	for k, v := range digests {
		got[k] = hex.EncodeToString(v)
	}
	if os.Getenv("VERIF_GOLDEN_WRITE") != "" {
		js, _ := json.MarshalIndent(got, "", " ")
		os.WriteFile(goldenPath(), js, 0o644)
		fmt.Println("golden digests written to", goldenPath())
	}
	var want golden
	if js, err := os.ReadFile(goldenPath()); err != nil {
		c.Broken("golden digest file missing: " + err.Error())
	} else if err := json.Unmarshal(js, &want); err != nil {
		c.Broken("golden digest file unreadable: " + err.Error())
	} else {
		for k, v := range got {
			if w, ok := want[k]; ok && w != v {
				viol("stability:"+strings.SplitN(k, ":", 2)[1], fmt.Sprintf("the output table of %s over %s changed (digest %s, pinned %s): persisted identifiers would no longer match", strings.SplitN(k, ":", 2)[1], strings.SplitN(k, ":", 2)[0], v[:16], w[:16]))
			}
		}
	}
	c.Count("evaluations", evals)
	c.Count("distinct_nontrivial", evals-1)
	c.Cov["golden_tables"] = len(got)
	c.Cov["rule"] = "one evaluation = one function applied to one distinct input and compared with its reference (hash/crc32, independent re-implementations, strconv base 32, dotted-quad formatting) or with its inverse; inputs are enumerated without repetition; non-trivial = every input except the single nil input"
	c.Sample(map[string]interface{}{"function": "Hash", "input": "every byte string of length <= 2, 1200 longer family members", "reference": "hash/crc32.ChecksumIEEE"})
	c.Sample(map[string]interface{}{"function": "ToString32/ToLong32", "input": "[-2^20, 2^20] and ±32^k±64, extremes", "example": hexa32.ToString32(-33)})
	c.Sample(map[string]interface{}{"function": "ToString(ToBytes())", "input": "every IPv4 address with two free octets"})
	if !c.Thorough() {
		c.NotExhaustive("quick tier: byte strings exhaustively to length 2 (thorough: 3), MurmurHash over 2^24 integers (thorough 2^32), IPv4 with two free octets (thorough: all 2^32), 32-bit compose/split by boundary pairs (thorough: all 2^32)")
	}
	c.Assume("the murmur references are independent re-implementations of the stream-lib port with the unsigned byte reading; no external specification is available offline")
	c.Assume("'values never change' is decided against SHA-256 digests of the output tables pinned in harness/props/c15/golden.json")
	// "pure": no state shared between two calls - decided in the race mode of the explorer (race.go)
	shard.SpawnRace(c, 2)
	c.Cov["pure_function_pairs_in_race_mode"] = len(raceItems())
}

func clip(b []byte) []byte {
	if len(b) > 12 {
		return b[:12]
	}
	return b
}
