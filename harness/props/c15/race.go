package c15

import (
	"fmt"
	"sort"

	"verif/engine/dfs"
	"verif/engine/evid"
	"verif/engine/racepass"

	"github.com/whatap/golib/util/hash"
	"github.com/whatap/golib/util/hexa32"
	"github.com/whatap/golib/util/hll"
	"github.com/whatap/golib/util/iputil"
	"github.com/whatap/golib/util/stringutil"
	"github.com/whatap/golib/verifshim/sched"
)

// "All are pure functions": a pure function keeps no state between calls, so two goroutines may be
// inside it at once. Sequentially this cannot be observed when the shared state is rewritten by
// every call (a scratch buffer hoisted to package level); it is decided in the race mode of engine E1:
// two threads call each function (the same one, and every two functions of one package) in a -race
// build whose detector sees only the library's own synchronisation - these functions have none, so
// any memory both calls touch, one of them writing, is reported.
type pureFn struct {
	pkg, name string
	call      func(i int)
}

func pureFns() []pureFn {
	bs := [][]byte{[]byte("alpha-0123456789"), []byte("bravo-abcdefghijklmnop-longer")}
	ss := []string{"alpha-0123456789", "bravo-abcdefghij"}
	ns := []int64{1 << 40, -987654321012}
	ips := []string{"10.20.30.255", "192.168.0.7"}
	return []pureFn{
		{"hash", "Hash", func(i int) { hash.Hash(bs[i]) }},
		{"hash", "HashStr", func(i int) { hash.HashStr(ss[i]) }},
		{"hash", "Hash64", func(i int) { hash.Hash64(bs[i]) }},
		{"hash", "Hash64Str", func(i int) { hash.Hash64Str(ss[i]) }},
		{"hash", "Hash64v2", func(i int) { hash.Hash64v2(bs[i]) }},
		{"hash", "Hash64StrV2", func(i int) { hash.Hash64StrV2(ss[i]) }},
		{"hash", "HashAddr", func(i int) { hash.HashAddr(bs[i]) }},
		{"hll", "MurmurHash", func(i int) { hll.MurmurHash(uint32(ns[i])) }},
		{"hll", "MurmurHashByte", func(i int) { hll.MurmurHashByte(bs[i]) }},
		{"hll", "MurmurHashLong", func(i int) { hll.MurmurHashLong(uint64(ns[i])) }},
		{"hll", "MurmurHashLongByte", func(i int) { hll.MurmurHashLongByte(bs[i], int32(len(bs[i]))) }},
		{"hexa32", "ToString32", func(i int) { hexa32.ToString32(ns[i]) }},
		{"hexa32", "ToLong32", func(i int) { hexa32.ToLong32([]string{"x100", "zvfk4"}[i]) }},
		{"iputil", "ToBytes", func(i int) { iputil.ToBytes(ips[i]) }},
		{"iputil", "ToString", func(i int) { iputil.ToString([]byte{10, 1, 2, byte(3 + i)}) }},
		{"iputil", "ToInt", func(i int) { iputil.ToInt([]byte{10, 1, 2, byte(3 + i)}) }},
		{"iputil", "ToStringFrInt", func(i int) { iputil.ToStringFrInt(int32(ns[i])) }},
		{"iputil", "ToBytesFrInt", func(i int) { iputil.ToBytesFrInt(int32(ns[i])) }},
		{"stringutil", "HashCode", func(i int) { stringutil.HashCode(ss[i]) }},
	}
}

func raceItems() []racepass.Item {
	fns := pureFns()
	var items []racepass.Item
	for ai, a := range fns {
		for _, b := range fns[ai:] {
			if a.pkg != b.pkg {
				continue
			}
			a, b := a, b
			items = append(items, racepass.Item{
				Name: fmt.Sprintf("%s.%s || %s.%s", a.pkg, a.name, b.pkg, b.name),
				Sc: func(x *sched.Exec) func() string {
					x.Spawn("T0", func() {
						x.Yield(sched.Op{Kind: "op:" + a.name})
						a.call(0)
					})
					x.Spawn("T1", func() {
						x.Yield(sched.Op{Kind: "op:" + b.name})
						b.call(1)
					})
					return func() string { return "" }
				},
				Cfg: dfs.Config{Preemptions: 1, Faults: 0, StepCap: 1000},
			})
		}
	}
	return items
}

// RaceWorker runs in the -race build.
func RaceWorker(c *evid.Ctx) {
	found := racepass.Worker(c, raceItems())
	var keys []string
	for k := range found {
		keys = append(keys, k)
	}
	sort.Strings(keys)
	for _, k := range keys {
		f := found[k]
		a, b := racepass.Method(f.Rep.Sites[0])+" ("+f.Rep.Kinds[0]+")", racepass.Method(f.Rep.Sites[1])+" ("+f.Rep.Kinds[1]+")"
		c.Violation("C15:pure:shared-state:"+k, fmt.Sprintf("%s: two concurrent calls touch the same memory, %s and %s, with no synchronisation: the function keeps state between (and across) calls, so its value for an input can depend on what another goroutine is computing (schedule %v)", f.Item, a, b, f.Choices),
			map[string]interface{}{"engine": "E1-race", "scenario": f.Item, "choices": f.Choices, "report": f.Rep.Text, "seen_in_schedules": f.N})
	}
}
