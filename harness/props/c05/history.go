package c05

import (
	"bytes"
	"fmt"
	"strconv"
	"strings"
	"sync/atomic"

	"verif/engine/evid"
	"verif/refenc"

	gio "github.com/whatap/golib/io"
	"github.com/whatap/golib/lang/pack"
	"github.com/whatap/golib/util/hash"
)

// mapConf is a minimal config.Config for ApplyConfig.
type mapConf map[string]string

func (m mapConf) ApplyDefault()                      {}
func (m mapConf) GetConfFile() string                { return "" }
func (m mapConf) Destroy()                           {}
func (m mapConf) GetKeys() []string                  { return nil }
func (m mapConf) GetValue(key string) string         { return m[key] }
func (m mapConf) GetValueDef(key, def string) string { return orDef(m[key], def) }
func (m mapConf) GetBoolean(key string, def bool) bool {
	if v, err := strconv.ParseBool(m[key]); err == nil {
		return v
	}
	return def
}
func (m mapConf) GetInt(key string, def int) int32 {
	if v, err := strconv.Atoi(m[key]); err == nil {
		return int32(v)
	}
	return int32(def)
}
func (m mapConf) GetIntSet(key, def, deli string) []int32 { return nil }
func (m mapConf) GetLong(key string, def int64) int64 {
	if v, err := strconv.ParseInt(m[key], 10, 64); err == nil {
		return v
	}
	return def
}
func (m mapConf) GetStringArray(key string, def string, deli string) []string { return nil }
func (m mapConf) GetStringHashSet(key, def, deli string) []int32              { return nil }
func (m mapConf) GetStringHashCodeSet(key, def, deli string) []int32          { return nil }
func (m mapConf) GetFloat(key string, def float32) float32                    { return def }
func (m mapConf) SetValues(v *map[string]string)                              {}
func (m mapConf) ToString() string                                            { return fmt.Sprint(map[string]string(m)) }
func (m mapConf) String() string                                              { return m.ToString() }

func orDef(v, def string) string {
	if v == "" {
		return def
	}
	return v
}

// licenceHistories: every history of length <= depth, on ONE client object, of sends (with the
// client's licence or a per-send override) and licence changes (assigning the exported field, or
// ApplyConfig as the configuration observer does). Every frame must carry the hash of the licence in
// effect for that very send — whatever an earlier send or an earlier licence left behind in the client.
func licenceHistories(c *evid.Ctx, depth int, evals, nontriv *int64) {
	type step struct {
		kind string // send | set | conf
		lic  string
	}
	alphabet := []step{{"send", ""}, {"send", "override-1"}, {"send", "override-2"}, {"set", "licence-A"}, {"set", "licence-B"}, {"conf", "licence-A"}, {"conf", "licence-C"}}
	mk := func(pcode int64) pack.Pack {
		t := pack.NewTextPack()
		t.Pcode = pcode
		t.AddText(pack.TextRec{Div: 2, Hash: 3, Text: "t"})
		return t
	}
	hist := make([]int, depth)
	n := int64(0)
	var rec func(pos, l int)
	rec = func(pos, l int) {
		if pos == l {
			n++
			atomic.AddInt64(evals, 1)
			atomic.AddInt64(nontriv, 1)
			ww := newWire("licence-0")
			cur := "licence-0"
			var desc []string
			for i, si := range hist[:l] {
				st := alphabet[si]
				switch st.kind {
				case "set":
					ww.cl.License = st.lic
					cur = st.lic
					desc = append(desc, fmt.Sprintf("License=%q", st.lic))
				case "conf":
					ww.cl.ApplyConfig(mapConf{"license": st.lic, "whatap.server.host": "collector", "pcode": "1"})
					cur = st.lic
					desc = append(desc, fmt.Sprintf("ApplyConfig(license=%q)", st.lic))
				case "send":
					p := mk(int64(100 + i))
					eff := cur
					if st.lic != "" {
						eff = st.lic
						desc = append(desc, fmt.Sprintf("Send(WithLicense(%q))", st.lic))
					} else {
						desc = append(desc, "Send()")
					}
					got, err := ww.send(p, st.lic)
					if err != nil {
						c.Violation("C05:history:send-error", fmt.Sprintf("after %v: Send failed: %v", desc, err), nil)
						return
					}
					frame := refenc.Frame(int64(100+i), eff, refPack(p))
					if !bytes.Equal(got, frame) {
						what := "frame"
						if len(got) == len(frame) && bytes.Equal(got[:10], frame[:10]) && !bytes.Equal(got[10:18], frame[10:18]) && bytes.Equal(got[18:], frame[18:]) {
							what = "licence-hash"
						}
						c.Violation("C05:history:"+what, fmt.Sprintf("one client, history %v: the last frame must carry the hash of licence %q; received %x…, reference %x… (first difference at byte %d)", strings.Join(desc, "; "), eff, clip(got), clip(frame), firstDiff(got, frame)),
							map[string]interface{}{"engine": "E2", "history": desc, "effective_licence": eff})
						return
					}
				}
			}
			return
		}
		for i := range alphabet {
			hist[pos] = i
			rec(pos+1, l)
		}
	}
	for l := 1; l <= depth; l++ {
		rec(0, l)
	}
	c.Count("licence_histories", n)
}

// headerHelper: DataOutputX.WriteOneWayHeader is the exported way to turn "pack type + pack body" into
// a one-way frame (the client builds the same frame by hand): for every project code and licence of
// the alphabets the helper's bytes must equal the reference frame, and the stream must report the
// number of bytes it now holds.
func headerHelper(c *evid.Ctx, lics []string, pcodes []int64, evals, nontriv *int64) {
	for _, lic := range lics {
		for _, pc := range pcodes {
			atomic.AddInt64(evals, 1)
			atomic.AddInt64(nontriv, 1)
			t := pack.NewTextPack()
			t.Pcode = pc
			t.AddText(pack.TextRec{Div: 2, Hash: 3, Text: "t"})
			payload := refPack(t)
			func() {
				defer func() {
					if r := recover(); r != nil {
						c.Violation("C05:header-helper:panic", fmt.Sprintf("WriteOneWayHeader(pcode %d): %v", pc, r), nil)
					}
				}()
				out := gio.NewDataOutputX()
				out.WriteBytes(payload)
				out.WriteOneWayHeader(10, 0, pc, hash.Hash64Str(lic))
				got := out.ToByteArray()
				want := refenc.Frame(pc, lic, payload)
				if !bytes.Equal(got, want) {
					c.Violation("C05:header-helper:bytes", fmt.Sprintf("WriteOneWayHeader(10, 0, %d, H64(%q)) around a %d-byte message: bytes %x… differ from the reference frame %x… at byte %d", pc, clipS(lic), len(payload), clip(got), clip(want), firstDiff(got, want)), nil)
				}
				if out.Size() != len(got) {
					c.Violation("C05:header-helper:size", fmt.Sprintf("after WriteOneWayHeader the stream holds %d bytes but Size() reports %d", len(got), out.Size()), nil)
				}
				// the two sibling helpers: WriteHeader (same layout) and WriteSecureHeader (object id and
				// transfer key instead of the licence hash)
				o2 := gio.NewDataOutputX()
				o2.WriteBytes(payload)
				o2.WriteHeader(10, 0, pc, hash.Hash64Str(lic))
				if g2 := o2.ToByteArray(); !bytes.Equal(g2, want) || o2.Size() != len(g2) {
					c.Violation("C05:header-helper:WriteHeader", fmt.Sprintf("WriteHeader(10, 0, %d, H64(%q)): %d bytes (Size() %d), reference frame %d bytes, first difference at %d", pc, clipS(lic), len(g2), o2.Size(), len(want), firstDiff(g2, want)), nil)
				}
				o3 := gio.NewDataOutputX()
				o3.WriteBytes(payload)
				o3.WriteSecureHeader(10, 0, pc, 77, -5)
				var sec refenc.B
				sec.U8(10)
				sec.U8(0)
				sec.I64(pc)
				sec.I32(77)
				sec.I32(-5)
				sec.I32(int32(len(payload)))
				sec = append(sec, payload...)
				if g3 := o3.ToByteArray(); !bytes.Equal(g3, sec) || o3.Size() != len(g3) {
					c.Violation("C05:header-helper:WriteSecureHeader", fmt.Sprintf("WriteSecureHeader(10, 0, %d, 77, -5): %d bytes (Size() %d), reference %d bytes, first difference at %d", pc, len(g3), o3.Size(), len(sec), firstDiff(g3, sec)), nil)
				}
			}()
		}
	}
}
