// Package c05 decides C05: bytes on the wire conform to the collector protocol layout — every
// enumerated pack is sent through the real one-way client over the in-memory network and the bytes
// received are compared with an independent reference encoder (frame, common header, and the body
// of the tag-count, log-sink, text, parameter, event, zip, hit-map and counter packs field by field).
package c05

import (
	"bytes"
	"fmt"
	"reflect"
	"strings"
	"sync/atomic"

	"verif/engine/evid"
	"verif/props/packs"
	"verif/refenc"

	"github.com/whatap/golib/lang"
	"github.com/whatap/golib/lang/pack"
	"github.com/whatap/golib/lang/value"
	wnet "github.com/whatap/golib/net"
	"github.com/whatap/golib/net/oneway"
	"github.com/whatap/golib/util/hmap"
	"github.com/whatap/golib/verifshim/vnet"
)

// ---- reference encoding of golib values (reads the exported payload fields only) ------------------

func refValue(b *refenc.B, v value.Value) {
	switch x := v.(type) {
	case *value.NullValue:
		b.U8(0)
	case *value.BoolValue:
		b.U8(10)
		b.Bool(x.Val)
	case *value.DecimalValue:
		b.U8(20)
		b.Dec(x.Val)
	case *value.IntValue:
		b.U8(21)
		b.I32(x.Val)
	case *value.LongValue:
		b.U8(22)
		b.I64(x.Val)
	case *value.FloatValue:
		b.U8(30)
		b.F32(x.Val)
	case *value.DoubleValue:
		b.U8(40)
		b.F64(x.Val)
	case *value.TextValue:
		b.U8(50)
		b.Text(x.Val)
	case *value.TextHashValue:
		b.U8(51)
		b.I32(x.Val)
	case *value.BlobValue:
		b.U8(60)
		b.Blob(x.Val)
	case *value.ListValue:
		b.U8(70)
		b.Dec(int64(x.Size()))
		for i := 0; i < x.Size(); i++ {
			refValue(b, x.Get(i))
		}
	case *value.MapValue:
		refMap(b, x)
	case *value.IntMapValue:
		refIntMap(b, x)
	default:
		panic(fmt.Sprintf("refValue: %T", v))
	}
}

func refMap(b *refenc.B, m *value.MapValue) {
	b.U8(80)
	b.Dec(int64(m.Size()))
	en := m.Keys()
	for en.HasMoreElements() {
		k := en.NextString()
		b.Text(k)
		refValue(b, m.Get(k))
	}
}

func refIntMap(b *refenc.B, m *value.IntMapValue) {
	b.U8(81)
	b.Dec(int64(m.Size()))
	en := m.Keys()
	for en.HasMoreElements() {
		k := en.NextInt()
		b.I32(k)
		refValue(b, m.Get(k))
	}
}

func refHeader(b *refenc.B, pcode int64, oid, okind, onode int32, time int64) {
	if okind|onode == 0 {
		b.Dec(pcode)
		b.I32(oid)
		b.I64(time)
		return
	}
	b.U8(9)
	b.Dec(pcode)
	b.I32(oid)
	b.I32(okind)
	b.I32(onode)
	b.I64(time)
}

func hdr(b *refenc.B, a *pack.AbstractPack) { refHeader(b, a.Pcode, a.Oid, a.Okind, a.Onode, a.Time) }

func fieldInt(p interface{}, name string) int64 {
	return reflect.ValueOf(p).Elem().FieldByName(name).Int()
}

// tagSection: dec(tagHash) then value(map tags); the hash is the given one, or the 64-bit hash of
// the encoded tag map when it was 0 and there are tags.
func tagSection(b *refenc.B, given int64, tags *value.MapValue) {
	var tb refenc.B
	refMap(&tb, tags)
	h := given
	if h == 0 && tags.Size() > 0 {
		h = refenc.H64(tb)
	}
	b.Dec(h)
	b.Raw(tb)
}

// refPack returns the type-tagged reference bytes of a pack, or nil if the type is not one of the
// eight whose body the property pins.
func refPack(p pack.Pack) []byte {
	var b refenc.B
	switch x := p.(type) {
	case *pack.TagCountPack:
		b.I16(0x1601)
		hdr(&b, &x.AbstractPack)
		b.U8(0)
		b.Text(x.Category)
		tagSection(&b, fieldInt(x, "tagHash"), x.Tags)
		refMap(&b, x.Data)
	case *pack.LogSinkPack:
		b.I16(0x170a)
		hdr(&b, &x.AbstractPack)
		b.U8(0)
		b.Text(x.Category)
		tagSection(&b, x.TagHash, x.Tags)
		b.Dec(x.Line)
		b.Text(x.Content)
		if x.Fields != nil && x.Fields.Size() > 0 {
			b.U8(1)
			refMap(&b, x.Fields)
		} else {
			b.U8(0)
		}
	case *pack.TextPack:
		b.I16(0x0700)
		hdr(&b, &x.AbstractPack)
		recs := reflect.ValueOf(x).Elem().FieldByName("records")
		b.Dec(int64(recs.Len()))
		for i := 0; i < recs.Len(); i++ {
			r := recs.Index(i)
			b.U8(uint8(r.FieldByName("Div").Uint()))
			b.I32(int32(r.FieldByName("Hash").Int()))
			b.Text(r.FieldByName("Text").String())
		}
	case *pack.ParamPack:
		b.I16(0x0100)
		hdr(&b, &x.AbstractPack)
		b.I32(x.Id)
		b.Dec(x.Request)
		b.Dec(x.Response)
		var keys []string
		en := x.Keys()
		for en.HasMoreElements() {
			keys = append(keys, en.NextString())
		}
		b.Dec(int64(len(keys)))
		for _, k := range keys {
			b.Text(k)
			refValue(&b, x.Get(k))
		}
	case *pack.EventPack:
		b.I16(0x1400)
		hdr(&b, &x.AbstractPack)
		b.U8(x.Level)
		b.Text(x.Title)
		b.Text(x.Message)
		// the user's attributes, then (put semantics: an existing key keeps its place) uuid if set,
		// escalation, status, object type
		type kv struct{ k, v string }
		var attrs []kv
		put := func(k, v string) {
			for i := range attrs {
				if attrs[i].k == k {
					attrs[i].v = v
					return
				}
			}
			attrs = append(attrs, kv{k, v})
		}
		en := x.Attr.Entries()
		for en.HasMoreElements() {
			e := en.NextElement().(*hmap.StringKeyLinkedEntry)
			put(e.GetKey(), e.GetValue().(string))
		}
		if x.Uuid != "" {
			put("_uuid_", x.Uuid)
		}
		put("_esca_", map[bool]string{true: "true", false: "false"}[x.Escalation])
		put("_status_", fmt.Sprintf("%d", x.Status))
		put("_otype_", fmt.Sprintf("%d", x.Otype))
		b.U8(uint8(len(attrs)))
		for _, a := range attrs {
			b.Text(a.k)
			b.Text(a.v)
		}
	case *pack.ZipPack:
		b.I16(0x170b)
		hdr(&b, &x.AbstractPack)
		b.U8(x.Status)
		b.Dec(int64(x.RecordCount))
		b.Blob(x.Records)
	case *pack.HitMapPack1:
		b.I16(0x1501)
		hdr(&b, &x.AbstractPack)
		b.U8(1)
		for i := 0; i < 120; i++ {
			b.I16(int16(x.Hit[i]))
			b.I16(int16(x.Error[i]))
		}
	case *pack.CounterPack1:
		b.I16(0x0201)
		hdr(&b, &x.AbstractPack)
		b.Blob(refCounter(x))
	default:
		return nil
	}
	return b
}

func refCounter(x *pack.CounterPack1) []byte {
	var b refenc.B
	d := func(v ...int64) {
		for _, n := range v {
			b.Dec(n)
		}
	}
	d(int64(x.Duration), x.Cputime, x.HeapTot, x.HeapUse, x.HeapPerm, int64(x.HeapPendingFinalization), int64(x.GcCount), x.GcTime,
		int64(x.ServiceCount), int64(x.ServiceError), x.ServiceTime, int64(x.SqlCount), int64(x.SqlError), x.SqlTime, x.SqlFetchCount, x.SqlFetchTime,
		int64(x.HttpcCount), int64(x.HttpcError), x.HttpcTime, int64(x.ActSvcCount))
	b.U8(uint8(len(x.ActSvcSlice)))
	for _, s := range x.ActSvcSlice {
		b.I16(s)
	}
	for _, f := range []float32{x.Cpu, x.CpuSys, x.CpuUsr, x.CpuWait, x.CpuSteal, x.CpuIrq, x.CpuProc} {
		b.F32(f)
	}
	d(int64(x.CpuCores))
	b.F32(x.Mem)
	b.F32(x.Swap)
	b.F32(x.Disk)
	d(x.ThreadTotalStarted, int64(x.ThreadCount), int64(x.ThreadDaemon), int64(x.ThreadPeakCount))
	if x.DbNumActive == nil || x.DbNumIdle == nil {
		b.U8(0)
	} else {
		b.U8(1)
		for _, m := range []*hmap.IntIntMap{x.DbNumActive, x.DbNumIdle} {
			d(int64(m.Size()))
			en := m.Entries()
			for en.HasMoreElements() {
				e := en.NextElement().(*hmap.IntIntEntry)
				d(int64(e.GetKey()), int64(e.GetValue()))
			}
		}
	}
	if x.Netstat == nil {
		b.U8(0)
	} else {
		b.U8(1)
		d(int64(x.Netstat.Est), int64(x.Netstat.FinW), int64(x.Netstat.CloW), int64(x.Netstat.TimW))
	}
	d(int64(x.ProcFd))
	b.F32(x.Tps)
	d(int64(x.RespTime))
	b.I16(x.ApType)
	if x.Websocket == nil {
		b.U8(0)
	} else {
		b.U8(1)
		d(int64(x.Websocket.Count), x.Websocket.In, x.Websocket.Out)
	}
	d(x.Starttime, x.PackDropped, int64(x.HostIp), int64(x.MacHash))
	if x.Extra == nil {
		b.U8(0)
	} else {
		b.U8(1)
		refIntMap(&b, x.Extra)
	}
	b.I32(x.Pid)
	b.U8(uint8(len(x.ActiveStat)))
	for _, s := range x.ActiveStat {
		b.I16(s)
	}
	d(int64(x.ThreadPoolActiveCount), int64(x.ThreadPoolQueueSize))
	meter := func(m *hmap.IntKeyLinkedMap, sql bool) {
		if m == nil {
			d(0)
			return
		}
		b.U8(9)
		d(int64(m.Size()))
		en := m.Entries()
		for en.HasMoreElements() {
			e := en.NextElement().(*hmap.IntKeyLinkedEntry)
			b.I32(e.GetKey())
			var t *pack.TxMeter
			var fc, ft int64
			switch mv := e.GetValue().(type) {
			case *pack.TxMeter:
				t = mv
			case *pack.SqlMeter:
				t, fc, ft = &mv.TxMeter, mv.FetchCount, mv.FetchTime
			case *pack.HttpcMeter:
				t = &mv.TxMeter
			}
			d(t.Time, int64(t.Count), int64(t.Error), int64(t.Actx))
			if sql {
				d(fc, ft)
			}
		}
	}
	meter(x.TxcallerOidMeter, false)
	meter(x.SqlMeter, true)
	meter(x.HttpcMeter, false)
	if x.TxcallerGroupMeter == nil {
		d(0)
	} else {
		b.U8(9)
		d(int64(x.TxcallerGroupMeter.Size()))
		en := x.TxcallerGroupMeter.Entries()
		for en.HasMoreElements() {
			e := en.NextElement().(*hmap.LinkedEntry)
			k := e.GetKey().(*lang.PKIND)
			t := e.GetValue().(*pack.TxMeter)
			d(k.PCode, int64(k.OKind), t.Time, int64(t.Count), int64(t.Error), int64(t.Actx))
		}
	}
	d(0) // deprecated okind meter
	if x.TxcallerUnknown == nil {
		b.U8(0)
	} else {
		b.U8(2)
		t := x.TxcallerUnknown
		d(t.Time, int64(t.Count), int64(t.Error), int64(t.Actx))
	}
	d(int64(x.ContainerKey))
	b.F32(x.TxDbcTime)
	b.F32(x.TxSqlTime)
	b.F32(x.TxHttpcTime)
	d(int64(x.ApdexSatisfied), int64(x.ApdexTolerated))
	b.F32(x.ArrivalRate)
	d(int64(x.GcOldgenCount))
	b.U8(x.Version)
	d(x.HeapMax, int64(x.ProcFdMax))
	b.F32(x.Metering)
	d(int64(x.ApdexTotal))
	if x.TxcallerPOidMeter == nil {
		d(0)
	} else {
		d(int64(x.TxcallerPOidMeter.Size()))
		en := x.TxcallerPOidMeter.Entries()
		for en.HasMoreElements() {
			e := en.NextElement().(*hmap.LinkedEntry)
			k := e.GetKey().(*lang.POID)
			t := e.GetValue().(*pack.TxMeter)
			d(k.PCode, int64(k.Oid), t.Time, int64(t.Count), int64(t.Error), int64(t.Actx))
		}
	}
	d(int64(x.Resp90), int64(x.Resp95), x.TimeSqrSum)
	return b
}

// ---- driver ---------------------------------------------------------------------------------------

var pinned = map[string]bool{"TagCountPack": true, "LogSinkPack": true, "TextPack": true, "ParamPack": true, "EventPack": true, "ZipPack": true, "HitMapPack1": true, "CounterPack1": true}

type wire struct {
	fake *vnet.Fake
	cl   *oneway.OneWayTcpClient
	lic  string
}

func newWire(lic string) *wire {
	f := &vnet.Fake{WriteCuts: func(int) []int { return nil }}
	vnet.Use(f)
	return &wire{fake: f, lic: lic, cl: oneway.VerifNew(oneway.WithServers([]string{"collector:6600"}), oneway.WithLicense(lic), oneway.WithPcode(1))}
}

// send returns the bytes the collector received for this one send.
func (w *wire) send(p pack.Pack, override string) ([]byte, error) {
	vnet.Use(w.fake)
	before := 0
	if n := len(w.fake.Conns); n > 0 {
		before = len(w.fake.Conns[n-1].Received)
	}
	nconn := len(w.fake.Conns)
	var err error
	if override != "" {
		err = w.cl.Send(p, wnet.WithLicense(override))
	} else {
		err = w.cl.Send(p)
	}
	if err != nil {
		return nil, err
	}
	c := w.fake.Conns[len(w.fake.Conns)-1]
	if len(w.fake.Conns) != nconn {
		before = 0
	}
	got := append([]byte{}, c.Received[before:]...)
	if len(c.Received) > 1<<20 {
		c.Received = c.Received[:0]
	}
	return got, nil
}

func Run(c *evid.Ctx) {
	packs.Discover()
	var evals, nontriv int64
	k := 1
	if c.Thorough() {
		k = 2
	}
	w := newWire("x4c2k-1234567890-abcdefghij-default")
	viol := func(key, msg string, a packs.Assignment, got, want []byte) {
		c.Violation("C05:"+key, msg, map[string]interface{}{"engine": "E3", "assignment": a.String(), "received": fmt.Sprintf("%x", clip(got)), "reference": fmt.Sprintf("%x", clip(want))})
	}
	for ti := range packs.Registry {
		t := &packs.Registry[ti]
		if !pinned[t.Name] {
			continue
		}
		packs.Enumerate(t, k, func(a packs.Assignment) {
			obj, _ := a.Build()
			p := obj.(pack.Pack)
			var want []byte
			ok := true
			func() {
				defer func() {
					if r := recover(); r != nil {
						ok = false
					}
				}()
				want = refPack(p) // before golib encodes: Write caches the tag hash and adds event attributes
			}()
			if !ok || want == nil {
				return
			}
			atomic.AddInt64(&evals, 1)
			if len(a.Dev) > 0 {
				atomic.AddInt64(&nontriv, 1)
			}
			var payload []byte
			func() {
				defer func() {
					if r := recover(); r != nil {
						payload = nil
					}
				}()
				payload = pack.ToBytesPack(p)
			}()
			if payload == nil {
				return // unwritable assignment: C03's business
			}
			if !bytes.Equal(payload, want) {
				viol(t.Name+":body:"+diffField(a), fmt.Sprintf("%s: ToBytesPack differs from the reference encoder at byte %d (lengths %d/%d)", a.String(), firstDiff(payload, want), len(payload), len(want)), a, payload, want)
				return
			}
			// through the real client: the frame around it
			got, err := w.send(p, "")
			if err != nil {
				viol("client:send-error", fmt.Sprintf("%s: Send failed on a healthy connection: %v", a.String(), err), a, nil, nil)
				return
			}
			frame := refenc.Frame(p.GetPCODE(), w.lic, want)
			if !bytes.Equal(got, frame) {
				viol("frame:"+t.Name, fmt.Sprintf("%s: bytes received by the collector differ from the reference frame at byte %d (lengths %d/%d)", a.String(), firstDiff(got, frame), len(got), len(frame)), a, got, frame)
			}
		})
	}
	// licence strings and project codes in the frame header
	tp := func(pcode int64) pack.Pack {
		t := pack.NewTextPack()
		t.Pcode = pcode
		t.AddText(pack.TextRec{Div: 2, Hash: 3, Text: "t"})
		return t
	}
	lics := []string{"", "a", "x4c2k-1234567890-abcdefghij-klmnop", strings.Repeat("L", 255), "라이선스-키"}
	pcodes := []int64{0, 1, -1, 127, 128, 32768, 8388608, 1 << 31, 1 << 39, 1 << 40, 1<<63 - 1, -1 << 63}
	for _, def := range lics {
		ww := newWire(def)
		for _, over := range append([]string{""}, lics[1:]...) {
			for _, pc := range pcodes {
				atomic.AddInt64(&evals, 1)
				atomic.AddInt64(&nontriv, 1)
				p := tp(pc)
				want := refPack(p)
				got, err := ww.send(p, over)
				if err != nil {
					c.Violation("C05:client:send-error", fmt.Sprintf("Send failed: %v", err), nil)
					continue
				}
				eff := def
				if over != "" {
					eff = over
				}
				frame := refenc.Frame(pc, eff, want)
				if !bytes.Equal(got, frame) {
					c.Violation("C05:frame:header", fmt.Sprintf("default licence %q, per-send licence %q, pcode %d: received frame differs from the reference at byte %d (received %x…, reference %x…)", clipS(def), clipS(over), pc, firstDiff(got, frame), clip(got), clip(frame)), nil)
				}
			}
		}
	}
	hd := 4
	if c.Thorough() {
		hd = 5
	}
	licenceHistories(c, hd, &evals, &nontriv)
	headerHelper(c, lics, pcodes, &evals, &nontriv)
	builders(c, &evals, &nontriv)
	vnet.Use(nil)
	c.Count("evaluations", evals)
	c.Count("distinct_nontrivial", nontriv)
	c.Cov["deviation_bound_k"] = k
	c.Cov["rule"] = "one evaluation = one pack object of the eight pinned types (at most k reflected slots deviating from two bases, incl. both header forms and all decimal classes of the project code) whose ToBytesPack bytes are compared with the reference encoder field by field, and which is then sent through the real OneWayTcpClient over the in-memory network: the bytes the peer receives must equal the reference frame (source 10, version 0, pcode, licence hash, length, payload); plus every (default licence, per-send licence, project code) combination of the alphabets, plus every history up to the stated length of sends and licence changes (field assignment, ApplyConfig) on one client object"
	c.Sample("CounterPack1 base1 Netstat.FinW:=alt5 → frame 0a 00 <pcode 8> <H64(licence) 8> <len 4> 02 01 <header> <blob>")
	c.Sample("EventPack base1 Uuid:=alt0")
	c.Assume("no protocol document is available offline: the reference encoders are written from the layout in the property text and DESIGN.md Appendix C")
}

func diffField(a packs.Assignment) string {
	if len(a.Dev) == 0 {
		return fmt.Sprintf("base%d", a.Base)
	}
	var s []string
	for k := range a.Dev {
		s = append(s, k)
	}
	if len(s) > 1 {
		if s[0] > s[1] {
			s[0], s[1] = s[1], s[0]
		}
	}
	return strings.Join(s, "+")
}

func firstDiff(a, b []byte) int {
	for i := 0; i < len(a) && i < len(b); i++ {
		if a[i] != b[i] {
			return i
		}
	}
	if len(a) < len(b) {
		return len(a)
	}
	return len(b)
}
func clip(b []byte) []byte {
	if len(b) > 64 {
		return b[:64]
	}
	return b
}
func clipS(s string) string {
	if len(s) > 20 {
		return s[:20] + "…"
	}
	return s
}
