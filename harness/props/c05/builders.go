package c05

import (
	"bytes"
	"fmt"
	"sync/atomic"

	"verif/engine/evid"
	"verif/refenc"

	"github.com/whatap/golib/lang/pack"
	"github.com/whatap/golib/lang/value"
)

// As-built bodies. The field-by-field comparison in Run reads what the pack object holds; a builder
// method that drops or reorders what it was handed would still agree with it. Here the reference is
// written from the ARGUMENTS of the exported builder methods of the pinned pack types: every history
// (up to the stated length) of AddText/AddTexts on a text pack, PutTag/Put on a tag-count pack and
// PutString/PutLong/Put/SetMapValue on a parameter pack, each from every way the library hands out such
// a pack (constructor, CreatePack, zero literal, a decoded pack).

type kv struct {
	k string
	v value.Value
}

// ordered dictionary with put semantics (an existing key keeps its place)
type okv []kv

func (o *okv) put(k string, v value.Value) {
	for i := range *o {
		if (*o)[i].k == k {
			(*o)[i].v = v
			return
		}
	}
	*o = append(*o, kv{k, v})
}

func (o okv) enc(b *refenc.B) {
	b.U8(80)
	b.Dec(int64(len(o)))
	for _, e := range o {
		b.Text(e.k)
		refValue(b, e.v)
	}
}

func builders(c *evid.Ctx, evals, nontriv *int64) {
	textBuilders(c, evals, nontriv)
	tagCountBuilders(c, evals, nontriv)
	paramBuilders(c, evals, nontriv)
	eventHistories(c, evals, nontriv)
}

// eventHistories: one event pack object that is written, changed in place and written again (an
// agent re-sends an event after adding an attribute or assigning its uuid). Every write must equal the
// reference encoding of the object as it stands: the serialise-only attributes keep the place they
// got when they were first added.
func eventHistories(c *evid.Ctx, evals, nontriv *int64) {
	type op struct {
		name string
		do   func(e *pack.EventPack)
	}
	var ops []op
	for _, k := range []string{"a", "b"} {
		for _, v := range []string{"1", "2"} {
			k, v := k, v
			ops = append(ops, op{fmt.Sprintf("Attr.Put(%q,%q)", k, v), func(e *pack.EventPack) { e.Attr.Put(k, v) }})
		}
	}
	for _, u := range []string{"", "u-1", "u-2"} {
		u := u
		ops = append(ops, op{fmt.Sprintf("Uuid=%q", u), func(e *pack.EventPack) { e.Uuid = u }})
	}
	ops = append(ops,
		op{"Status=7", func(e *pack.EventPack) { e.Status = 7 }},
		op{"Escalation=!Escalation", func(e *pack.EventPack) { e.Escalation = !e.Escalation }},
		op{"Otype=3", func(e *pack.EventPack) { e.Otype = 3 }},
		op{"Write", nil})
	depth := 4
	var rec func(hist []op)
	run := func(hist []op) {
		atomic.AddInt64(evals, 1)
		atomic.AddInt64(nontriv, 1)
		e := pack.NewEventPack()
		e.Pcode, e.Oid, e.Time, e.Level, e.Title, e.Message = 5, 6, 7, 2, "title", "message"
		desc := "NewEventPack()"
		write := func() bool {
			var want, got []byte
			var perr interface{}
			func() {
				defer func() { perr = recover() }()
				want = refPack(e) // before the library writes: Write adds the serialise-only attributes
				got = pack.ToBytesPack(e)
			}()
			if perr != nil {
				c.Violation("C05:EventPack:history:panic", fmt.Sprintf("%s: %v", desc, perr), map[string]interface{}{"history": desc})
				return false
			}
			if !bytes.Equal(got, want) {
				c.Violation("C05:EventPack:history:body", fmt.Sprintf("%s: this write differs from the reference encoding of the object as it stands at byte %d (lengths %d/%d)", desc, firstDiff(got, want), len(got), len(want)), map[string]interface{}{"history": desc})
				return false
			}
			return true
		}
		for _, o := range hist {
			desc += " " + o.name
			if o.do == nil {
				if !write() {
					return
				}
				continue
			}
			o.do(e)
		}
		desc += " Write"
		write()
	}
	rec = func(hist []op) {
		if len(hist) > 0 {
			run(hist)
		}
		if len(hist) == depth {
			return
		}
		for _, o := range ops {
			rec(append(append([]op{}, hist...), o))
		}
	}
	rec(nil)
}

func textBuilders(c *evid.Ctx, evals, nontriv *int64) {
	type op struct {
		name string
		n    int // records handed over; -1 = one record through AddText
	}
	ops := []op{{"AddText", -1}, {"Write", -2}}
	for _, n := range []int{0, 1, 2, 31, 32, 33, 64, 65, 200} {
		ops = append(ops, op{fmt.Sprintf("AddTexts(%d)", n), n})
	}
	starts := []struct {
		name string
		mk   func() (*pack.TextPack, []pack.TextRec)
	}{
		{"NewTextPack()", func() (*pack.TextPack, []pack.TextRec) { return pack.NewTextPack(), nil }},
		{"CreatePack(PACK_TEXT)", func() (*pack.TextPack, []pack.TextRec) { return pack.CreatePack(pack.PACK_TEXT).(*pack.TextPack), nil }},
		{"&TextPack{}", func() (*pack.TextPack, []pack.TextRec) { return &pack.TextPack{}, nil }},
		{"decoded(2 records)", func() (*pack.TextPack, []pack.TextRec) {
			t := pack.NewTextPack()
			rs := []pack.TextRec{{Div: 9, Hash: -9, Text: "decoded-0"}, {Div: 8, Hash: -8, Text: "decoded-1"}}
			t.AddText(rs[0])
			t.AddText(rs[1])
			return pack.ToPack(pack.ToBytesPack(t)).(*pack.TextPack), rs
		}},
		{"decoded(no record)", func() (*pack.TextPack, []pack.TextRec) {
			return pack.ToPack(pack.ToBytesPack(pack.NewTextPack())).(*pack.TextPack), nil
		}},
	}
	depth := 3
	var rec func(hist []op)
	run := func(hist []op) {
		for _, st := range starts {
			atomic.AddInt64(evals, 1)
			atomic.AddInt64(nontriv, 1)
			t, given := st.mk()
			t.Pcode, t.Oid, t.Time = 77, -3, 1700000000000
			serial := 0
			desc := st.name
			for _, o := range hist {
				desc += " " + o.name
				if o.n == -2 {
					func() {
						defer func() { recover() }() // judged at the end of the history
						pack.ToBytesPack(t)
					}()
					continue
				}
				if o.n < 0 {
					r := pack.TextRec{Div: byte(serial % 251), Hash: int32(serial), Text: fmt.Sprintf("text-%d", serial)}
					serial++
					given = append(given, r)
					t.AddText(r)
					continue
				}
				batch := make([]pack.TextRec, o.n)
				for i := range batch {
					batch[i] = pack.TextRec{Div: byte(serial % 251), Hash: int32(serial), Text: fmt.Sprintf("text-%d", serial)}
					serial++
				}
				given = append(given, batch...)
				t.AddTexts(batch)
			}
			var want refenc.B
			want.I16(0x0700)
			refHeader(&want, 77, -3, 0, 0, 1700000000000)
			want.Dec(int64(len(given)))
			for _, r := range given {
				want.U8(r.Div)
				want.I32(r.Hash)
				want.Text(r.Text)
			}
			var got []byte
			var perr interface{}
			func() {
				defer func() { perr = recover() }()
				got = pack.ToBytesPack(t)
			}()
			if perr != nil {
				c.Violation("C05:TextPack:builder:panic", fmt.Sprintf("%s: ToBytesPack panicked: %v", desc, perr), map[string]interface{}{"history": desc})
				continue
			}
			if !bytes.Equal(got, want) {
				c.Violation("C05:TextPack:builder:body", fmt.Sprintf("%s: %d records were handed to the pack; its body differs from the reference encoding of those records at byte %d (lengths %d/%d)", desc, len(given), firstDiff(got, want), len(got), len(want)), map[string]interface{}{"history": desc, "records_given": len(given)})
			}
		}
	}
	rec = func(hist []op) {
		if len(hist) > 0 {
			run(hist)
		}
		if len(hist) == depth {
			return
		}
		for _, o := range ops {
			rec(append(append([]op{}, hist...), o))
		}
	}
	rec(nil)
}

func tagCountBuilders(c *evid.Ctx, evals, nontriv *int64) {
	type op struct {
		name string
		do   func(t *pack.TagCountPack, tags, data *okv)
	}
	var ops []op
	for _, k := range []string{"a", "", "키"} {
		for _, v := range []string{"", "v1", "값"} {
			k, v := k, v
			ops = append(ops, op{fmt.Sprintf("PutTag(%q,%q)", k, v), func(t *pack.TagCountPack, tags, data *okv) {
				t.PutTag(k, v)
				tags.put(k, value.NewTextValue(v))
			}})
		}
	}
	goVals := []struct {
		v    interface{}
		want value.Value
	}{
		{int(-5), value.NewDecimalValue(-5)}, {int16(-300), value.NewDecimalValue(-300)}, {int32(1 << 30), value.NewDecimalValue(1 << 30)},
		{int64(1 << 40), value.NewDecimalValue(1 << 40)}, {uint(7), value.NewDecimalValue(7)}, {uint32(1<<32 - 1), value.NewDecimalValue(1<<32 - 1)},
		{uint64(1 << 50), value.NewDecimalValue(1 << 50)}, {float32(1.5), value.NewFloatValue(1.5)}, {float64(-2.25), value.NewDoubleValue(-2.25)},
		{"text", value.NewTextValue("text")}, {value.NewBoolValue(true), value.NewBoolValue(true)},
	}
	for _, k := range []string{"a", "b"} {
		for _, g := range goVals {
			k, g := k, g
			ops = append(ops, op{fmt.Sprintf("Put(%q,%T %v)", k, g.v, g.v), func(t *pack.TagCountPack, tags, data *okv) {
				t.Put(k, g.v)
				data.put(k, g.want)
			}})
		}
	}
	var rec func(hist []op)
	run := func(hist []op) {
		atomic.AddInt64(evals, 1)
		atomic.AddInt64(nontriv, 1)
		t := pack.NewTagCountPack()
		t.Pcode, t.Oid, t.Time, t.Category = 5, 6, 7, "cat"
		var tags, data okv
		desc := "NewTagCountPack()"
		for _, o := range hist {
			desc += " " + o.name
			o.do(t, &tags, &data)
		}
		var want refenc.B
		want.I16(0x1601)
		refHeader(&want, 5, 6, 0, 0, 7)
		want.U8(0)
		want.Text("cat")
		var tb refenc.B
		tags.enc(&tb)
		h := int64(0)
		if len(tags) > 0 {
			h = refenc.H64(tb)
		}
		want.Dec(h)
		want.Raw(tb)
		data.enc(&want)
		var got []byte
		var perr interface{}
		func() {
			defer func() { perr = recover() }()
			got = pack.ToBytesPack(t)
		}()
		if perr != nil {
			c.Violation("C05:TagCountPack:builder:panic", fmt.Sprintf("%s: ToBytesPack panicked: %v", desc, perr), map[string]interface{}{"history": desc})
			return
		}
		if !bytes.Equal(got, want) {
			c.Violation("C05:TagCountPack:builder:body", fmt.Sprintf("%s: the body differs from the reference encoding of what was put at byte %d (lengths %d/%d)", desc, firstDiff(got, want), len(got), len(want)), map[string]interface{}{"history": desc})
		}
	}
	rec = func(hist []op) {
		if len(hist) > 0 {
			run(hist)
		}
		if len(hist) == 2 {
			return
		}
		for _, o := range ops {
			rec(append(append([]op{}, hist...), o))
		}
	}
	rec(nil)
}

func paramBuilders(c *evid.Ctx, evals, nontriv *int64) {
	type op struct {
		name string
		do   func(t *pack.ParamPack, m *okv)
	}
	var ops []op
	for _, k := range []string{"a", "", "b"} {
		k := k
		for _, v := range []string{"", "s"} {
			v := v
			ops = append(ops, op{fmt.Sprintf("PutString(%q,%q)", k, v), func(t *pack.ParamPack, m *okv) { t.PutString(k, v); m.put(k, value.NewTextValue(v)) }})
		}
		for _, v := range []int64{0, -1 << 40} {
			v := v
			ops = append(ops, op{fmt.Sprintf("PutLong(%q,%d)", k, v), func(t *pack.ParamPack, m *okv) { t.PutLong(k, v); m.put(k, value.NewDecimalValue(v)) }})
		}
		ops = append(ops, op{fmt.Sprintf("Put(%q,null)", k), func(t *pack.ParamPack, m *okv) { t.Put(k, value.NewNullValue()); m.put(k, value.NewNullValue()) }})
	}
	for _, keys := range [][]string{nil, {"a"}, {"z", "a", ""}} {
		keys := keys
		ops = append(ops, op{fmt.Sprintf("SetMapValue(%q)", keys), func(t *pack.ParamPack, m *okv) {
			mv := value.NewMapValue()
			for i, k := range keys {
				mv.Put(k, value.NewDecimalValue(int64(100+i)))
				m.put(k, value.NewDecimalValue(int64(100+i)))
			}
			t.SetMapValue(mv)
		}})
	}
	ops = append(ops, op{"SetMapValue(nil)", func(t *pack.ParamPack, m *okv) { t.SetMapValue(nil) }})
	var rec func(hist []op)
	run := func(hist []op) {
		atomic.AddInt64(evals, 1)
		atomic.AddInt64(nontriv, 1)
		t := pack.NewParamPack()
		t.Pcode, t.Oid, t.Time, t.Id, t.Request, t.Response = 5, 6, 7, 8, 9, 10
		var m okv
		desc := "NewParamPack()"
		for _, o := range hist {
			desc += " " + o.name
			o.do(t, &m)
		}
		var want refenc.B
		want.I16(0x0100)
		refHeader(&want, 5, 6, 0, 0, 7)
		want.I32(8)
		want.Dec(9)
		want.Dec(10)
		want.Dec(int64(len(m)))
		for _, e := range m {
			want.Text(e.k)
			refValue(&want, e.v)
		}
		var got []byte
		var perr interface{}
		func() {
			defer func() { perr = recover() }()
			got = pack.ToBytesPack(t)
		}()
		if perr != nil {
			c.Violation("C05:ParamPack:builder:panic", fmt.Sprintf("%s: ToBytesPack panicked: %v", desc, perr), map[string]interface{}{"history": desc})
			return
		}
		if !bytes.Equal(got, want) {
			c.Violation("C05:ParamPack:builder:body", fmt.Sprintf("%s: the body differs from the reference encoding of what was put at byte %d (lengths %d/%d)", desc, firstDiff(got, want), len(got), len(want)), map[string]interface{}{"history": desc})
		}
	}
	rec = func(hist []op) {
		if len(hist) > 0 {
			run(hist)
		}
		if len(hist) == 2 {
			return
		}
		for _, o := range ops {
			rec(append(append([]op{}, hist...), o))
		}
	}
	rec(nil)
}
