// Package c14 decides C14: a HyperLogLog counter's state depends only on the set offered, merge is
// union, serialisation preserves state (E2: BFS over offer sequences with state key GetBytes()),
// every item updates the reference register with the reference rank (E3: full ranges), and the
// estimate stays within the algorithm's error bound on deterministic item families.
package c14

import (
	"bytes"
	"encoding/binary"
	"fmt"
	"math"
	"math/bits"
	"sync"
	"sync/atomic"

	"verif/engine/enum"
	"verif/engine/evid"
	"verif/engine/seqx"

	"github.com/whatap/golib/util/hll"
)

// ---- independent reference ----------------------------------------------------------------------

func refHash(d uint64) uint32 {
	const m = uint32(0x5bd1e995)
	mix := func(x uint32) uint32 { return (x ^ x>>24) * m }
	h := mix(uint32(d * uint64(m)))
	h *= m
	h ^= mix(uint32((d >> 32) * uint64(m)))
	h ^= h >> 13
	h *= m
	h ^= h >> 15
	return h
}

// refIndexRank: register = top p bits of the hash; rank = leading zeros of the remaining bits + 1,
// capped by the width of the remainder (sentinel).
func refIndexRank(p uint32, item uint64) (uint32, uint32) {
	h := refHash(item)
	idx := h >> (32 - p)
	rest := h << p
	lz := uint32(bits.LeadingZeros32(rest))
	if lz > 32-p {
		lz = 32 - p
	}
	return idx, lz + 1
}

// refBytes: precision (i32), word count (i32), words (6 five-bit registers per 32-bit word, i32 each).
func refBytes(p uint32, regs map[uint32]uint32) []byte {
	m := 1 << p
	nw := m / 6
	if nw*6 < m {
		nw++
	}
	words := make([]uint32, nw)
	for idx, r := range regs {
		words[idx/6] |= r << (5 * (idx % 6))
	}
	out := make([]byte, 0, 8+4*nw)
	out = binary.BigEndian.AppendUint32(out, p)
	out = binary.BigEndian.AppendUint32(out, uint32(nw))
	for _, w := range words {
		out = binary.BigEndian.AppendUint32(out, w)
	}
	return out
}

func refRegs(p uint32, items []uint64) map[uint32]uint32 {
	regs := map[uint32]uint32{}
	for _, it := range items {
		i, r := refIndexRank(p, it)
		if r > regs[i] {
			regs[i] = r
		}
	}
	return regs
}

// alphabet builds items that collide: same register with different ranks, same register with the
// same rank, and different registers.
func alphabet(p uint32, n int) []uint64 {
	var out []uint64
	i0, r0 := refIndexRank(p, 1)
	out = append(out, 1)
	var sameRank, diffRank, lower bool
	for x := uint64(2); len(out) < n && x < 1<<26; x++ {
		i, r := refIndexRank(p, x)
		switch {
		case i == i0 && r == r0 && !sameRank:
			sameRank = true
			out = append(out, x)
		case i == i0 && r > r0 && !diffRank:
			diffRank = true
			out = append(out, x)
		case i == i0 && r < r0 && !lower:
			lower = true
			out = append(out, x)
		case i != i0 && sameRank && diffRank && len(out) < n:
			out = append(out, x|1<<40) // a 64-bit item
			x += 1000
		}
	}
	for x := uint64(7); len(out) < n; x += 13 {
		out = append(out, x)
	}
	return out
}

type viol func(key, msg string)

// ---- set semantics: BFS -------------------------------------------------------------------------------

type hstate struct {
	h   *hll.HyperLogLog
	set uint32
}

func bfsSys(p uint32, items []uint64, v viol) *seqx.Sys {
	type model struct{ set uint32 }
	sub := func(set uint32) []uint64 {
		var s []uint64
		for i, it := range items {
			if set&(1<<uint(i)) != 0 {
				s = append(s, it)
			}
		}
		return s
	}
	return &seqx.Sys{
		Name: fmt.Sprintf("hll(p=%d)", p),
		// operations 0..n-1 offer item op; operations n..2n-1 add (AddAll) a counter holding just item op-n
		NOps: 2 * len(items),
		New: func() (interface{}, interface{}) {
			return hll.NewHyperLogLogInt(p), &model{}
		},
		Step: func(i, m interface{}, op int) string {
			h := i.(*hll.HyperLogLog)
			md := m.(*model)
			if op >= len(items) {
				o := hll.NewHyperLogLogInt(p)
				o.OfferLong(items[op-len(items)])
				ob := append([]byte{}, o.GetBytes()...)
				h.AddAll(o)
				if !bytes.Equal(o.GetBytes(), ob) {
					return fmt.Sprintf("AddAll(counter of {%d}) changed its argument", items[op-len(items)])
				}
				md.set |= 1 << uint(op-len(items))
				return ""
			}
			before := append([]byte{}, h.GetBytes()...)
			var changed bool
			it := items[op]
			if it>>32 == 0 && op%2 == 0 {
				changed = h.Offer(uint32(it))
			} else {
				changed = h.OfferLong(it)
			}
			after := h.GetBytes()
			if changed != !bytes.Equal(before, after) {
				return fmt.Sprintf("Offer(%d) returned %v but the state changed=%v", it, changed, !bytes.Equal(before, after))
			}
			md.set |= 1 << uint(op)
			return ""
		},
		Observe: func(i, m interface{}) string {
			h := i.(*hll.HyperLogLog)
			md := m.(*model)
			want := refBytes(p, refRegs(p, sub(md.set)))
			got := h.GetBytes()
			if !bytes.Equal(got, want) {
				return fmt.Sprintf("after offering the set %v the bytes differ from the canonical counter of that set (first difference at byte %d)", sub(md.set), firstDiff(got, want))
			}
			// serialise / rebuild preserves state and estimate
			b := hll.BuildHyperLogLog(append([]byte{}, got...))
			if !bytes.Equal(b.GetBytes(), got) {
				return "BuildHyperLogLog(GetBytes()) has different bytes"
			}
			if b.Cardinality() != h.Cardinality() {
				return fmt.Sprintf("rebuilt counter estimates %d, original %d", b.Cardinality(), h.Cardinality())
			}
			return ""
		},
		Key: func(i interface{}) string { return string(i.(*hll.HyperLogLog).GetBytes()) },
		OpLabel: func(op int) string {
			if op >= len(items) {
				return fmt.Sprintf("AddAll(counter of {%d})", items[op-len(items)])
			}
			return fmt.Sprintf("Offer(%d)", items[op])
		},
		MaxDepth: len(items) + 2,
		ModelKey: func(m interface{}) string { return fmt.Sprint(m.(*model).set) },
	}
}

func firstDiff(a, b []byte) int {
	for i := 0; i < len(a) && i < len(b); i++ {
		if a[i] != b[i] {
			return i
		}
	}
	return len(a)
}

// ---- merge ----------------------------------------------------------------------------------------------

func counterOf(p uint32, items []uint64, set uint32) *hll.HyperLogLog {
	h := hll.NewHyperLogLogInt(p)
	for i, it := range items {
		if set&(1<<uint(i)) != 0 {
			h.OfferLong(it)
		}
	}
	return h
}

func mergeChecks(p uint32, items []uint64, triples bool, v viol, evals *int64) {
	n := uint32(1) << uint(len(items))
	cs := make([]*hll.HyperLogLog, n)
	bs := make([][]byte, n)
	for s := uint32(0); s < n; s++ {
		cs[s] = counterOf(p, items, s)
		bs[s] = append([]byte{}, cs[s].GetBytes()...)
	}
	// the result of a merge is a counter of its own: offers to it must not reach an input and offers to
	// an input must not reach it - for the merge of one counter with nothing, too
	independent := func(desc string, res *hll.HyperLogLog, ins []*hll.HyperLogLog, sets []uint32) {
		for _, it := range items {
			res.OfferLong(it ^ 0x5bd1e995)
		}
		for i, in := range ins {
			if !bytes.Equal(in.GetBytes(), bs[sets[i]]) {
				v("merge:result-aliases-input", fmt.Sprintf("p=%d: %s: after offering further items to the result, input %d (subset %b) has changed: the result shares its registers", p, desc, i, sets[i]))
				cs[sets[i]] = counterOf(p, items, sets[i])
			}
		}
	}
	for a := uint32(0); a < n; a++ {
		*evals++
		m0 := cs[a].Merge()
		if !bytes.Equal(m0.GetBytes(), bs[a]) {
			v("merge:single", fmt.Sprintf("p=%d: Merge() of the counter of subset %b alone differs from it", p, a))
		}
		independent("Merge() with no further counter", m0, []*hll.HyperLogLog{cs[a]}, []uint32{a})
	}
	for a := uint32(0); a < n; a++ {
		for b := uint32(0); b < n; b++ {
			*evals++
			if a != b {
				independent("Merge of two counters", cs[a].Merge(cs[b]), []*hll.HyperLogLog{cs[a], cs[b]}, []uint32{a, b})
			}
			m := cs[a].Merge(cs[b])
			if !bytes.Equal(m.GetBytes(), bs[a|b]) {
				v("merge:union", fmt.Sprintf("p=%d: Merge of the counters of subsets %b and %b differs from the counter of the union", p, a, b))
			}
			if !bytes.Equal(cs[a].GetBytes(), bs[a]) || !bytes.Equal(cs[b].GetBytes(), bs[b]) {
				v("merge:inputs-touched", fmt.Sprintf("p=%d: Merge modified one of its inputs (subsets %b, %b)", p, a, b))
				cs[a], cs[b] = counterOf(p, items, a), counterOf(p, items, b)
			}
			if m2 := cs[b].Merge(cs[a]); !bytes.Equal(m2.GetBytes(), m.GetBytes()) {
				v("merge:commutative", fmt.Sprintf("p=%d: Merge(%b,%b) != Merge(%b,%b)", p, a, b, b, a))
			}
			if a == b {
				if !bytes.Equal(m.GetBytes(), bs[a]) {
					v("merge:idempotent", fmt.Sprintf("p=%d: Merge(x,x) != x for subset %b", p, a))
				}
			}
			// AddAll on a copy
			cp := hll.BuildHyperLogLog(append([]byte{}, bs[a]...))
			cp.Cardinality() // the estimate is a function of the registers, whenever it was asked before
			cp.AddAll(cs[b])
			if !bytes.Equal(cp.GetBytes(), bs[a|b]) {
				v("addall:union", fmt.Sprintf("p=%d: AddAll of subsets %b and %b differs from the union counter", p, a, b))
			} else if got, want := cp.Cardinality(), hll.BuildHyperLogLog(append([]byte{}, bs[a|b]...)).Cardinality(); got != want {
				v("addall:estimate", fmt.Sprintf("p=%d: after AddAll of subsets %b and %b the counter holds the union's registers but estimates %d, a counter rebuilt from the same bytes estimates %d", p, a, b, got, want))
			}
			if triples {
				for c := uint32(0); c < n; c++ {
					*evals++
					l := cs[a].Merge(cs[b]).Merge(cs[c])
					r := cs[a].Merge(cs[b].Merge(cs[c]))
					all := cs[a].Merge(cs[b], cs[c])
					if !bytes.Equal(l.GetBytes(), r.GetBytes()) || !bytes.Equal(l.GetBytes(), bs[a|b|c]) || !bytes.Equal(all.GetBytes(), bs[a|b|c]) {
						v("merge:associative", fmt.Sprintf("p=%d: merging subsets %b,%b,%c in different groupings disagrees with the union counter", p, a, b, c))
					}
				}
			}
		}
	}
}

// ---- register rule ---------------------------------------------------------------------------------------

func registerRule(p uint32, n uint64, v viol, evals *int64) {
	enum.ParallelRange(n, func(lo, hi uint64) {
		rs := hll.NewRegisterSet(1 << p)
		h := hll.NewHyperLogLog(p, rs)
		for x := lo; x < hi; x++ {
			var ok bool
			if x%3 == 0 {
				ok = h.OfferLong(x)
			} else {
				ok = h.Offer(uint32(x))
			}
			idx, rank := refIndexRank(p, x)
			w := idx / 6
			want := rank << (5 * (idx % 6))
			if !ok || rs.M[w] != want {
				v("register-rule", fmt.Sprintf("p=%d item %d: expected register %d = rank %d (word %d = %08x); Offer returned %v, word is %08x", p, x, idx, rank, w, want, ok, rs.M[w]))
			}
			rs.M[w] = 0
			if (x-lo)%4096 == 4095 || x == hi-1 {
				for i, wd := range rs.M {
					if wd != 0 {
						v("register-rule:stray", fmt.Sprintf("p=%d: a register outside the reference index was written (word %d = %08x) while offering items up to %d", p, i, wd, x))
						rs.M[i] = 0
					}
				}
			}
		}
		atomic.AddInt64(evals, int64(hi-lo))
	})
}

// ---- estimate ------------------------------------------------------------------------------------------------

func estimate(p uint32, thorough bool, v viol, evals *int64, worst *float64, mu *sync.Mutex) {
	m := uint64(1) << p
	fams := []func(n uint64) uint64{
		func(n uint64) uint64 { return n },
		func(n uint64) uint64 { return (n * 2654435761) & 0xffffffff },
		func(n uint64) uint64 { return (n*40503)%(1<<32) | 1<<33 },
	}
	every := m <= 1024
	for fi, f := range fams {
		h := hll.NewHyperLogLogInt(p)
		next := uint64(1)
		for n := uint64(1); n <= 6*m; n++ {
			h.OfferLong(f(n))
			if !every && n != next {
				continue
			}
			next = n + n/100 + 1
			atomic.AddInt64(evals, 1)
			est := float64(h.Cardinality())
			// serialising and rebuilding preserves the estimate at every fill level (not only for
			// the handful of items of the state search), and the rebuilt counter is a full counter:
			// it can be the receiver of a merge
			{
				stop := false
				func() {
					defer func() {
						if r := recover(); r != nil {
							v("rebuild:panic", fmt.Sprintf("p=%d family %d, %d distinct items: using the counter rebuilt from GetBytes() panicked: %v", p, fi, n, r))
							stop = true
						}
					}()
					rb := hll.BuildHyperLogLog(append([]byte{}, h.GetBytes()...))
					if got := float64(rb.Cardinality()); got != est {
						v("rebuild:estimate", fmt.Sprintf("p=%d family %d: after %d distinct items Cardinality()=%.0f, the counter rebuilt from its bytes estimates %.0f", p, fi, n, est, got))
						stop = true
						return
					}
					one := hll.NewHyperLogLogInt(p)
					one.OfferLong(f(n))
					if mg := rb.Merge(one); !bytes.Equal(mg.GetBytes(), h.GetBytes()) {
						v("rebuild:merge", fmt.Sprintf("p=%d family %d, %d distinct items: merging a counter of the last item into the rebuilt counter does not give the counter's own bytes", p, fi, n))
						stop = true
					}
				}()
				if stop {
					break
				}
			}
			dev := math.Abs(est - float64(n))
			sigma := 1.04 / math.Sqrt(float64(m))
			// HyperLogLog regime: 5 standard errors. Small sets ("near-exact"): linear counting,
			// whose standard deviation is sqrt(m(e^t - t - 1)) with t = n/m: 5 of those plus rounding.
			// The original algorithm (no bias tables) has a known bump of about 3 % where it switches
			// from linear counting to the raw estimate (n near 2.5 m), independent of m: allow 6 %.
			bound := math.Max(3, math.Max(5*sigma*float64(n), 0.06*float64(n)))
			if n <= m/8 {
				t := float64(n) / float64(m)
				bound = math.Max(3, 5*math.Sqrt(float64(m)*(math.Exp(t)-t-1))+2)
			}
			mu.Lock()
			if r := dev / bound; r > *worst {
				*worst = r
			}
			mu.Unlock()
			if dev > bound || math.IsNaN(est) || math.IsInf(est, 0) {
				v("estimate", fmt.Sprintf("p=%d family %d: after %d distinct items Cardinality()=%.0f (allowed deviation %.1f)", p, fi, n, est, bound))
				break
			}
		}
	}
}

func Run(c *evid.Ctx) {
	var evals int64
	var mu sync.Mutex
	v := func(key, msg string) { c.Violation("C14:"+key, msg, map[string]interface{}{"detail": msg}) }
	na := 6
	if c.Thorough() {
		na = 8
	}
	for p := uint32(4); p <= 16; p++ {
		items := alphabet(p, na)
		r := seqx.BFS(bfsSys(p, items, v))
		c.Count("states", int64(r.States))
		c.Count("transitions", int64(r.Transitions))
		if !r.Fixpoint {
			c.NotExhaustive(fmt.Sprintf("p=%d BFS did not reach a fixpoint", p))
		}
		if p == 4 || p == 10 {
			c.Sample(map[string]interface{}{"precision": p, "item_alphabet": items, "states": r.States, "transitions": r.Transitions, "fixpoint": r.Fixpoint})
		}
		for _, vi := range r.Viols {
			v("set-semantics", fmt.Sprintf("p=%d after %v: %s", p, vi.Labels, vi.What))
		}
		triples := p <= 8 || (c.Thorough() && p <= 12)
		mi := items
		if len(mi) > 6 {
			mi = mi[:6]
		}
		if triples && len(mi) > 5 {
			mi = mi[:5]
		}
		mergeChecks(p, mi, triples, v, &evals)
		// different precisions must be refused
		func() {
			defer func() {
				if recover() == nil {
					v("merge:precision-mismatch", fmt.Sprintf("AddAll of a p=%d counter into a p=%d counter was accepted", p+1, p))
				}
			}()
			hll.NewHyperLogLogInt(p).AddAll(hll.NewHyperLogLogInt(p + 1))
		}()
	}
	// register rule over full ranges
	for p := uint32(4); p <= 16; p++ {
		n := uint64(1) << 20
		if p == 10 {
			n = 1 << 24
		}
		if c.Thorough() {
			n = 1 << 24
			if p == 10 {
				n = 1 << 32
			}
		}
		registerRule(p, n, v, &evals)
	}
	// estimate
	worst := 0.0
	var wg sync.WaitGroup
	for p := uint32(4); p <= 16; p++ {
		wg.Add(1)
		go func(p uint32) {
			defer wg.Done()
			estimate(p, c.Thorough(), v, &evals, &worst, &mu)
		}(p)
	}
	wg.Wait()
	c.Cov["worst_estimate_deviation_as_fraction_of_allowed"] = math.Round(worst*100) / 100
	c.Count("evaluations", evals)
	c.Count("distinct_nontrivial", evals)
	c.Cov["traces_validated_against_impl"] = c.Counter("transitions")
	c.Cov["rule"] = "BFS: states = distinct GetBytes() of the real counter, transitions = real Offer/OfferLong calls, every state compared with the byte form of the reference counter for the *set* offered; merge: every pair (and triple for small precisions) of subsets of the item alphabet; register rule: every item of the stated range on a zeroed counter; estimate: three deterministic item families up to 6m distinct items"
	c.Assume("the error-bound clause is checked on deterministic item families with generous constants (5 standard errors 1.04/sqrt(m), at least 6 % to cover the known bias bump of the uncorrected algorithm at the linear-counting switch; for small sets up to m/8 items five standard deviations of linear counting plus rounding, i.e. a few units); it cannot be decided for all multisets")
	if !c.Thorough() {
		c.NotExhaustive("quick tier: register rule on 2^24 items at p=10 and 2^20 at the other precisions (thorough: 2^32 / 2^24)")
	}
}
