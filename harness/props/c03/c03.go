// Package c03 decides C03: every pack type survives serialize/deserialize with all carried fields
// intact (E3: k-deviation field assignments from two bases over reflected fields; oracle: same
// concrete type, consumed exactly, byte-identical re-encode; carried-field baseline).
package c03

import (
	"bytes"
	"encoding/json"
	"fmt"
	"os"
	"path/filepath"
	"sort"
	"strings"
	"sync"
	"sync/atomic"

	"verif/engine/evid"
	"verif/props/packs"
)

func baselinePath() string {
	return filepath.Join(evid.Root, "harness", "props", "c03", "carried_fields.json")
}

func distPath() string {
	return filepath.Join(evid.Root, "harness", "props", "c03", "distinguishing.json")
}

func Run(c *evid.Ctx) {
	codes, unknown := packs.Discover()
	c.Cov["factory_type_codes"] = len(codes)
	for _, u := range unknown {
		c.Violation("C03:registry:"+u, "the pack factory creates a type the check's registry does not cover: "+u+" (add it to props/packs)", nil)
	}
	k := 1
	if c.Thorough() {
		k = 2
	}
	var evals, nontriv int64
	carried := map[string][]string{}
	distinguishing := map[string][]string{} // type -> "base|slot|alt" whose encoding differs from its base's
	var mu sync.Mutex
	var wg sync.WaitGroup
	sem := make(chan struct{}, 16)
	for ti := range packs.Registry {
		t := &packs.Registry[ti]
		wg.Add(1)
		sem <- struct{}{}
		go func() {
			defer wg.Done()
			defer func() { <-sem }()
			baseBytes := map[int][]byte{}
			baseBroken := map[int]bool{}
			sens := map[string]bool{}
			var dist []string
			failSingle := map[string]bool{}
			revertUnwritable := map[string]bool{}
			allSlots := map[string]bool{}
			packs.Enumerate(t, k, func(a packs.Assignment) {
				obj, slots := a.Build()
				v := packs.RoundTrip(t, obj)
				atomic.AddInt64(&evals, 1)
				if len(a.Dev) > 0 {
					atomic.AddInt64(&nontriv, 1)
				}
				if len(a.Dev) == 1 && a.Base == 1 && v.Bytes != nil && !bytes.Equal(v.Bytes, baseBytes[1]) {
					for s := range a.Dev {
						sens[s] = true
					}
				}
				if len(a.Dev) == 1 && v.Bytes != nil && baseBytes[a.Base] != nil {
					// some constructors read the clock (ServerInfoPack.UpTime): the base is rebuilt right
					// before and right after the deviating object, and the comparison only counts when
					// the two base encodings agree
					enc := func(x packs.Assignment) []byte {
						o, _ := x.Build()
						b, err := packs.Encode(o)
						if err != nil {
							return nil
						}
						return b
					}
					base := packs.Assignment{Type: t, Base: a.Base, Dev: map[string]int{}}
					before, dev, after := enc(base), enc(a), enc(base)
					if before != nil && dev != nil && bytes.Equal(before, after) {
						for s, alt := range a.Dev {
							k := fmt.Sprintf("%d|%s|%d", a.Base, s, alt)
							if bytes.Equal(dev, before) {
								k = "=" + k // stable and NOT distinguishing
							}
							dist = append(dist, k)
						}
					}
				}
				if len(a.Dev) == 0 {
					baseBytes[a.Base] = v.Bytes
					if v.Class == "write-panic" {
						baseBroken[a.Base] = true
						c.Info("%s: the base object (base %d) cannot be written: %s — deviations from it are skipped", t.Name, a.Base, v.Msg)
						return
					}
					if v.Class != "" {
						// the base object itself does not survive: report it once, deviations add nothing
						baseBroken[a.Base] = true
					}
					if a.Base == 1 {
						for _, s := range slots {
							if s.N > 1 {
								allSlots[s.Path] = true
							}
						}
					}
				} else if baseBroken[a.Base] {
					return
				} else if baseBroken[0] && v.Class == "write-panic" && allKeep(a) {
					// reverting a slot to what the constructor left there reproduces the unwritable
					// constructor state (reported above as information), not a new defect
					for s := range a.Dev {
						if len(a.Dev) == 1 {
							revertUnwritable[fmt.Sprintf("%d|%s", a.Base, s)] = true
						}
					}
					return
				} else if v.Class == "write-panic" && len(a.Dev) > 1 {
					for s, alt := range a.Dev {
						if alt == 0 && revertUnwritable[fmt.Sprintf("%d|%s", a.Base, s)] {
							return // the same reverted slot, together with an unrelated deviation
						}
					}
				}
				if v.Class == "" {
					return
				}
				if v.Class == "write-panic" {
					// a deviation the writer cannot take although the base was fine
					slot := devSlots(a)
					if len(a.Dev) == 1 {
						failSingle[fmt.Sprintf("%d|%s|%s", a.Base, slot, v.Class)] = true
					} else {
						var names []string
						for s := range a.Dev {
							names = append(names, s)
						}
						sort.Strings(names)
						for _, s := range names {
							if failSingle[fmt.Sprintf("%d|%s|%s", a.Base, s, v.Class)] {
								slot = s
								break
							}
						}
					}
					c.Violation(fmt.Sprintf("C03:%s:write-panic:%s", t.Name, slot), fmt.Sprintf("%s: %s", a.String(), v.Msg), map[string]interface{}{"engine": "E3", "assignment": a.String()})
					return
				}
				key := fmt.Sprintf("C03:%s:%s", t.Name, v.Class)
				if v.Class == "reencode" && v.Field != "" {
					key += ":" + stripIdx(v.Field)
				} else {
					// minimal cause: when one of the deviating slots already fails the same way on its
					// own (singles are enumerated before pairs), the pair is that finding again
					cause := devSlots(a)
					if len(a.Dev) == 1 {
						failSingle[fmt.Sprintf("%d|%s|%s", a.Base, cause, v.Class)] = true
					} else {
						var names []string
						for s := range a.Dev {
							names = append(names, s)
						}
						sort.Strings(names)
						for _, s := range names {
							if failSingle[fmt.Sprintf("%d|%s|%s", a.Base, s, v.Class)] {
								cause = s
								break
							}
						}
					}
					key += ":" + cause
				}
				c.Violation(key, fmt.Sprintf("%s: %s", a.String(), v.Msg), map[string]interface{}{"engine": "E3", "assignment": a.String(), "bytes": fmt.Sprintf("%x", clip(v.Bytes))})
			})
			var cf []string
			for s := range sens {
				cf = append(cf, s)
			}
			sort.Strings(cf)
			mu.Lock()
			carried[t.Name] = cf
			sort.Strings(dist)
			distinguishing[t.Name] = dist
			mu.Unlock()
		}()
	}
	wg.Wait()
	containerChecks(c, &evals, &nontriv)
	// carried-field baseline: a field that stops influencing the bytes is a format regression
	if os.Getenv("VERIF_GOLDEN_WRITE") != "" {
		js, _ := json.MarshalIndent(carried, "", " ")
		os.WriteFile(baselinePath(), js, 0o644)
		fmt.Println("carried-field baseline written to", baselinePath())
		onlyDist := map[string][]string{}
		for tn, ks := range distinguishing {
			for _, k := range ks {
				if !strings.HasPrefix(k, "=") {
					onlyDist[tn] = append(onlyDist[tn], k)
				}
			}
		}
		js, _ = json.Marshal(onlyDist)
		os.WriteFile(distPath(), js, 0o644)
	}
	// distinguishing-value baseline: a single-slot deviation whose encoding differed from its base's on
	// the pinned tree must still differ (otherwise two packs that were distinct on the wire have been
	// merged: the writer dropped or clamped a field for that value)
	var wantDist map[string][]string
	if js, err := os.ReadFile(distPath()); err != nil {
		c.Broken("distinguishing-value baseline missing: " + err.Error())
	} else if err := json.Unmarshal(js, &wantDist); err != nil {
		c.Broken("distinguishing-value baseline unreadable: " + err.Error())
	} else {
		n := 0
		for tn, keys := range wantDist {
			have := map[string]bool{}
			for _, k := range distinguishing[tn] {
				have[k] = true
			}
			for _, k := range keys {
				n++
				if have["="+k] {
					parts := strings.SplitN(k, "|", 3)
					c.Violation(fmt.Sprintf("C03:%s:value-not-carried:%s", tn, stripIdx(parts[1])), fmt.Sprintf("%s base%s: setting %s to alternative %s no longer changes the encoding (it did on the pinned tree): the value is lost on the wire", tn, parts[0], parts[1], parts[2]), nil)
				}
			}
		}
		c.Cov["distinguishing_single_deviations_in_baseline"] = n
	}
	var want map[string][]string
	if js, err := os.ReadFile(baselinePath()); err != nil {
		c.Broken("carried-field baseline missing: " + err.Error())
	} else if err := json.Unmarshal(js, &want); err != nil {
		c.Broken("carried-field baseline unreadable: " + err.Error())
	} else {
		n := 0
		for tn, fields := range want {
			have := map[string]bool{}
			for _, f := range carried[tn] {
				have[f] = true
			}
			for _, f := range fields {
				n++
				if !have[f] {
					c.Violation(fmt.Sprintf("C03:%s:not-carried:%s", tn, stripIdx(f)), fmt.Sprintf("%s: field %s no longer influences the encoding (it did on the pinned tree): the wire format lost a field", tn, f), nil)
				}
			}
		}
		c.Cov["carried_fields_in_baseline"] = n
	}
	c.Count("evaluations", evals)
	c.Count("distinct_nontrivial", nontriv)
	c.Cov["pack_types"] = len(packs.Registry)
	c.Cov["deviation_bound_k"] = k
	c.Cov["rule"] = "one evaluation = one pack object (constructor result, or every slot set to a typical distinct value, with at most k slots deviating over the kind's boundary alphabet; slots are discovered by reflection incl. unexported fields) encoded with its type tag, decoded (through the factory when registered), checked for same concrete type, exact consumption and byte-identical re-encoding; non-trivial = at least one deviation; objects are distinct by construction"
	c.Sample(packs.Assignment{Type: &packs.Registry[1], Base: 1, Dev: map[string]int{"Netstat.Est": 9}}.String())
	c.Sample(packs.Assignment{Type: &packs.Registry[15], Base: 0, Dev: map[string]int{"Status": 3}}.String())
	c.Assume("constructor invariants are preserved: a sub-object the constructor allocates is never replaced by nil, fixed-length arrays keep their length")
	c.Assume("restored means wire-equivalent: the decoded pack re-encodes to the identical bytes (a 32-bit counter carried in 16 bits legitimately comes back narrowed)")
}

func allKeep(a packs.Assignment) bool {
	for _, alt := range a.Dev {
		if alt != 0 {
			return false
		}
	}
	return true
}

func devSlots(a packs.Assignment) string {
	if len(a.Dev) == 0 {
		return fmt.Sprintf("base%d", a.Base)
	}
	var s []string
	for k := range a.Dev {
		s = append(s, stripIdx(k))
	}
	sort.Strings(s)
	return strings.Join(s, "+")
}

func clip(b []byte) []byte {
	if len(b) > 64 {
		return b[:64]
	}
	return b
}

func stripIdx(f string) string {
	// a[0].b -> a[].b so that keys do not depend on element positions
	var sb strings.Builder
	in := false
	for _, r := range f {
		if r == '[' {
			in = true
			sb.WriteRune(r)
			continue
		}
		if r == ']' {
			in = false
		}
		if !in {
			sb.WriteRune(r)
		}
	}
	return sb.String()
}
