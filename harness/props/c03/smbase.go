package c03

import (
	"bytes"
	"fmt"
	"math"
	"reflect"
	"sync/atomic"

	"verif/engine/enum"
	"verif/engine/evid"
	"verif/props/packs"

	"github.com/whatap/golib/lang/pack"
)

// smBase: the system-base pack carries operating-system specific element records (CPU, per-core CPU,
// memory) chosen by its OS field on both sides. For every OS code, every element field is set to
// distinct values and then deviated one at a time over its kind's alphabet: the pack must come back
// with the same element types, every element field equal, exact consumption, identical re-encoding.
func smBase(c *evid.Ctx, evals, nontriv *int64) {
	t := regType("SMBasePack")
	for _, os := range []int16{pack.OS_LINUX, pack.OS_WINDOW, pack.OS_OSX, pack.OS_HPUX, pack.OS_AIX} {
		mk := func() (*pack.SMBasePack, []reflect.Value) {
			p := pack.NewSMBasePack()
			p.Pcode, p.Oid, p.Time, p.IP, p.OS, p.UpTime, p.EpochTime = 5, 6, 7, 0x0a000001, os, 1234, 99
			var els []interface{}
			if os == pack.OS_WINDOW {
				cpu, core, mem := &pack.CpuWindow{}, &pack.CpuWindow{}, &pack.MemoryWindow{}
				p.Cpu, p.CpuCore, p.Memory = cpu, []pack.Cpu{core}, mem
				els = []interface{}{cpu, core, mem}
			} else {
				cpu, core, mem := &pack.CpuLinux{}, &pack.CpuLinux{}, &pack.MemoryLinux{}
				p.Cpu, p.CpuCore, p.Memory = cpu, []pack.Cpu{core}, mem
				els = []interface{}{cpu, core, mem}
			}
			var fields []reflect.Value
			n := 0
			for _, e := range els {
				v := reflect.ValueOf(e).Elem()
				for i := 0; i < v.NumField(); i++ {
					n++
					f := v.Field(i)
					switch f.Kind() {
					case reflect.Float32:
						f.SetFloat(float64(n) + 0.5)
					case reflect.Int64:
						f.SetInt(int64(1000 + n))
					}
					fields = append(fields, f)
				}
			}
			return p, fields
		}
		_, fields := mk()
		check := func(desc string, p *pack.SMBasePack) {
			atomic.AddInt64(evals, 1)
			atomic.AddInt64(nontriv, 1)
			defer func() {
				if r := recover(); r != nil {
					c.Violation("C03:SMBasePack:elements:panic", fmt.Sprintf("%s: panic: %v", desc, r), nil)
				}
			}()
			b, err := packs.Encode(p)
			if err != nil {
				c.Violation("C03:SMBasePack:elements:write-panic", fmt.Sprintf("%s: %v", desc, err), nil)
				return
			}
			dec, left, derr := packs.Decode(t, b)
			if derr != nil || left != 0 {
				c.Violation("C03:SMBasePack:elements:decode", fmt.Sprintf("%s: decode error %v, %d bytes left", desc, derr, left), nil)
				return
			}
			d := dec.(*pack.SMBasePack)
			if reflect.TypeOf(d.Cpu) != reflect.TypeOf(p.Cpu) || reflect.TypeOf(d.Memory) != reflect.TypeOf(p.Memory) || len(d.CpuCore) != len(p.CpuCore) {
				c.Violation("C03:SMBasePack:elements:type", fmt.Sprintf("%s: decoded elements are %T / %T / %d cores", desc, d.Cpu, d.Memory, len(d.CpuCore)), nil)
				return
			}
			for name, pair := range map[string][2]interface{}{"Cpu": {p.Cpu, d.Cpu}, "CpuCore[0]": {p.CpuCore[0], d.CpuCore[0]}, "Memory": {p.Memory, d.Memory}} {
				if f := enum.DeepDiff(reflect.ValueOf(pair[0]), reflect.ValueOf(pair[1]), name, 0); f != "" {
					c.Violation("C03:SMBasePack:elements:field:"+stripIdx(f), fmt.Sprintf("%s: element field %s is not restored", desc, f), nil)
					return
				}
			}
			b2, err2 := packs.Encode(dec)
			if err2 != nil || !bytes.Equal(b, b2) {
				c.Violation("C03:SMBasePack:elements:reencode", fmt.Sprintf("%s: re-encoding differs (%v)", desc, err2), nil)
			}
		}
		p0, _ := mk()
		check(fmt.Sprintf("SMBasePack OS=%d all element fields distinct", os), p0)
		for fi := range fields {
			var alts []interface{}
			switch fields[fi].Kind() {
			case reflect.Float32:
				alts = []interface{}{float32(0), float32(-1.25), float32(math.MaxFloat32), float32(math.SmallestNonzeroFloat32), float32(math.Inf(1))}
			case reflect.Int64:
				alts = []interface{}{int64(0), int64(-1), int64(128), int64(1 << 31), int64(1 << 40), int64(math.MaxInt64), int64(math.MinInt64)}
			}
			for _, a := range alts {
				p, fs := mk()
				fs[fi].Set(reflect.ValueOf(a))
				check(fmt.Sprintf("SMBasePack OS=%d element field #%d := %v", os, fi, a), p)
			}
		}
	}
}
