package c03

import (
	"bytes"
	"container/list"
	"fmt"
	"reflect"
	"sync/atomic"

	"verif/engine/enum"
	"verif/engine/evid"
	"verif/props/packs"

	gio "github.com/whatap/golib/io"
	"github.com/whatap/golib/lang/pack"
	"github.com/whatap/golib/util/compressutil"
)

// sliceEnum adapts a slice to hmap.Enumeration (what SetRecords takes).
type sliceEnum struct {
	items []interface{}
	i     int
}

func (e *sliceEnum) HasMoreElements() bool { return e.i < len(e.items) }
func (e *sliceEnum) NextElement() interface{} {
	v := e.items[e.i]
	e.i++
	return v
}

// recordVariants builds records of one type: both bases and every single deviation.
func recordVariants(newRec func() interface{}) []interface{} {
	var out []interface{}
	hints := packs.Hints()
	build := func(base int, dev map[string]int) (interface{}, []enum.Slot) {
		obj := newRec()
		f := &enum.Filler{Hints: hints}
		f.Fill(obj, func(slot string, n int) int {
			if c, ok := dev[slot]; ok {
				return c
			}
			if base == 1 && n > 1 {
				return 1
			}
			return 0
		})
		return obj, append([]enum.Slot{}, f.Slots...)
	}
	for base := 0; base <= 1; base++ {
		o, slots := build(base, nil)
		out = append(out, o)
		for _, s := range slots {
			for alt := 0; alt < s.N; alt++ {
				if alt == base {
					continue
				}
				r, _ := build(base, map[string]int{s.Path: alt})
				out = append(out, r)
			}
		}
	}
	return out
}

type recKind struct {
	name    string
	newPack func() interface{}
	newRec  func() interface{}
	// set stores the records, get returns them (decoded from the pack's blob)
	set func(p interface{}, recs []interface{})
	get func(p interface{}) []interface{}
	// set2: the pack's other way of storing records (SetRecordsList / SetRecordsArray), nil = none
	set2 func(p interface{}, recs []interface{})
	// versions of the record encoding selectable on the pack (nil = none)
	versions []byte
}

func listToSlice(l *list.List) []interface{} {
	var out []interface{}
	if l == nil {
		return out
	}
	for e := l.Front(); e != nil; e = e.Next() {
		out = append(out, e.Value)
	}
	return out
}

func recKinds() []recKind {
	return []recKind{
		{name: "StatSqlPack", newPack: func() interface{} { return pack.NewStatSqlPack() }, newRec: func() interface{} { return pack.NewSqlRec() },
			set: func(p interface{}, r []interface{}) { p.(*pack.StatSqlPack).SetRecords(len(r), &sliceEnum{items: r}) },
			get: func(p interface{}) []interface{} { return listToSlice(p.(*pack.StatSqlPack).GetRecords()) },
			set2: func(p interface{}, r []interface{}) {
				l := list.New()
				for _, x := range r {
					l.PushBack(x)
				}
				p.(*pack.StatSqlPack).SetRecordsList(l)
			}},
		{name: "StatHttpcPack", newPack: func() interface{} { return pack.NewStatHttpcPack() }, newRec: func() interface{} { return pack.NewHttpcRec() },
			set: func(p interface{}, r []interface{}) { p.(*pack.StatHttpcPack).SetRecords(len(r), &sliceEnum{items: r}) },
			get: func(p interface{}) []interface{} { return listToSlice(p.(*pack.StatHttpcPack).GetRecords()) },
			set2: func(p interface{}, r []interface{}) {
				l := list.New()
				for _, x := range r {
					l.PushBack(x)
				}
				p.(*pack.StatHttpcPack).SetRecordsList(l)
			}},
		{name: "StatErrorPack", newPack: func() interface{} { return pack.NewStatErrorPack() }, newRec: func() interface{} { return pack.NewErrorRec() },
			set: func(p interface{}, r []interface{}) { p.(*pack.StatErrorPack).SetRecords(len(r), &sliceEnum{items: r}) },
			get: func(p interface{}) []interface{} {
				var out []interface{}
				for _, x := range p.(*pack.StatErrorPack).GetRecords() {
					out = append(out, x)
				}
				return out
			},
			set2: func(p interface{}, r []interface{}) {
				var arr []*pack.ErrorRec
				for _, x := range r {
					arr = append(arr, x.(*pack.ErrorRec))
				}
				p.(*pack.StatErrorPack).SetRecordsArray(arr)
			}},
		{name: "StatServicePack", newPack: func() interface{} { return pack.NewStatServicePack() }, newRec: func() interface{} { return pack.NewServiceRec() },
			set: func(p interface{}, r []interface{}) {
				p.(*pack.StatServicePack).SetRecords(len(r), &sliceEnum{items: r})
			},
			get: func(p interface{}) []interface{} {
				sp := p.(*pack.StatServicePack)
				in := gio.NewDataInputX(sp.Records)
				n := int(in.ReadShort()) & 0xffff
				var out []interface{}
				for i := 0; i < n; i++ {
					out = append(out, pack.ReadRec(in))
				}
				if in.Available() != 0 {
					panic(fmt.Sprintf("%d bytes of the record blob left unread", in.Available()))
				}
				return out
			}},
		{name: "SMDownCheckPack", newPack: func() interface{} { return pack.NewSMDownCheckPack() }, newRec: func() interface{} { return &pack.DownCheckRec{} },
			set: func(p interface{}, r []interface{}) {
				var arr []*pack.DownCheckRec
				for _, x := range r {
					arr = append(arr, x.(*pack.DownCheckRec))
				}
				p.(*pack.SMDownCheckPack).SetRecords(arr)
			},
			get: func(p interface{}) []interface{} {
				var out []interface{}
				for _, x := range p.(*pack.SMDownCheckPack).GetRecords() {
					out = append(out, x)
				}
				return out
			}},
		{name: "StatTransactionPack", newPack: func() interface{} { return pack.NewStatTransactionPack() }, newRec: func() interface{} { return pack.NewTransactionRec() },
			set: func(p interface{}, r []interface{}) {
				p.(*pack.StatTransactionPack).SetRecords(len(r), &sliceEnum{items: r})
			},
			get: func(p interface{}) []interface{} { return listToSlice(p.(*pack.StatTransactionPack).GetRecords()) },
			set2: func(p interface{}, r []interface{}) {
				l := list.New()
				for _, x := range r {
					l.PushBack(x)
				}
				p.(*pack.StatTransactionPack).SetRecordsList(l)
			},
			versions: []byte{2, 3, 4, 5}},
		{name: "StatTransactionPack1", newPack: func() interface{} { return pack.NewStatTransactionPack1() }, newRec: func() interface{} { return pack.NewTransactionRec() },
			set: func(p interface{}, r []interface{}) {
				p.(*pack.StatTransactionPack1).SetRecords(len(r), &sliceEnum{items: r})
			},
			get: func(p interface{}) []interface{} { return listToSlice(p.(*pack.StatTransactionPack1).GetRecords()) },
			set2: func(p interface{}, r []interface{}) {
				l := list.New()
				for _, x := range r {
					l.PushBack(x)
				}
				p.(*pack.StatTransactionPack1).SetRecordsList(l)
			},
			versions: []byte{2, 3, 4, 5}},
	}
}

func regType(name string) *packs.Type {
	for i := range packs.Registry {
		if packs.Registry[i].Name == name {
			return &packs.Registry[i]
		}
	}
	panic(name)
}

// versionMask: the fields of a TransactionRec a given record version carries.
func maskForVersion(rec interface{}, ver byte) interface{} {
	r, ok := rec.(*pack.TransactionRec)
	if !ok {
		return rec
	}
	c := *r
	c.Profiled = false // never carried
	if ver <= 2 {
		c.ApdexSatisfied, c.ApdexTolerated = 0, 0
	}
	if ver <= 3 {
		c.TimeMin, c.TimeStd = 0, 0
	}
	return &c
}

func recordLists(c *evid.Ctx, evals, nontriv *int64) {
	for _, k := range recKinds() {
		variants := recordVariants(k.newRec)
		versions := k.versions
		if versions == nil {
			versions = []byte{0}
		}
		for _, ver := range versions {
			// lists of 0, 1, 2, 3 records; every variant appears at every position of a 3-list
			var lists [][]interface{}
			lists = append(lists, nil)
			for i, v := range variants {
				lists = append(lists, []interface{}{v})
				a, b := variants[(i+1)%len(variants)], variants[(i+7)%len(variants)]
				lists = append(lists, []interface{}{v, a}, []interface{}{a, v, b}, []interface{}{b, a, v})
			}
			setters := []func(p interface{}, recs []interface{}){k.set}
			if k.set2 != nil {
				setters = append(setters, k.set2)
			}
			for _, recs := range lists {
				for si, setter := range setters {
					atomic.AddInt64(evals, 1)
					if len(recs) > 0 {
						atomic.AddInt64(nontriv, 1)
					}
					func() {
						desc := fmt.Sprintf("%s with %d records (record version %d, stored with %s)", k.name, len(recs), ver, []string{"SetRecords", "SetRecordsList/SetRecordsArray"}[si])
						defer func() {
							if r := recover(); r != nil {
								c.Violation(fmt.Sprintf("C03:%s:records:panic", k.name), fmt.Sprintf("%s: panic: %v", desc, r), nil)
							}
						}()
						p := k.newPack()
						pv := reflect.ValueOf(p).Elem()
						if f := pv.FieldByName("Version"); f.IsValid() && k.versions != nil {
							f.SetUint(uint64(ver))
						}
						pv.FieldByName("Pcode").SetInt(4321)
						pv.FieldByName("Oid").SetInt(-77)
						setter(p, recs)
						t := regType(k.name)
						b, err := packs.Encode(p)
						if err != nil {
							c.Violation(fmt.Sprintf("C03:%s:records:write-panic", k.name), fmt.Sprintf("%s: %v", desc, err), nil)
							return
						}
						dec, left, derr := packs.Decode(t, b)
						if derr != nil || left != 0 {
							c.Violation(fmt.Sprintf("C03:%s:records:decode", k.name), fmt.Sprintf("%s: decode error %v, %d bytes left", desc, derr, left), nil)
							return
						}
						if rc := reflect.ValueOf(dec).Elem().FieldByName("RecordCount").Int(); int(rc) != len(recs) {
							c.Violation(fmt.Sprintf("C03:%s:records:count", k.name), fmt.Sprintf("%s: decoded RecordCount = %d", desc, rc), nil)
						}
						got := k.get(dec)
						if len(got) != len(recs) {
							c.Violation(fmt.Sprintf("C03:%s:records:count", k.name), fmt.Sprintf("%s: GetRecords returned %d records", desc, len(got)), nil)
							return
						}
						for i := range recs {
							want := maskForVersion(recs[i], ver)
							if d := packs.Diff(want, got[i]); d != "" {
								c.Violation(fmt.Sprintf("C03:%s:records:field:%s", k.name, d), fmt.Sprintf("%s: record %d comes back with a different %s", desc, i, d), map[string]interface{}{"pack": k.name, "record_index": i, "field": d, "version": ver})
								return
							}
						}
					}()
				}
			}
		}
	}
}

func innerAlphabet() []pack.Pack {
	t := pack.NewTextPack()
	t.Time = 11
	t.AddText(pack.TextRec{Div: 3, Hash: -5, Text: "text"})
	p := pack.NewParamPack()
	p.Id = 9
	p.PutString("k", "v")
	e := pack.NewEventPack()
	e.Title, e.Level, e.Status = "title", 2, 7
	tc := pack.NewTagCountPack()
	tc.Category = "cat"
	tc.PutTag("tag", "x")
	tc.Put("field", 5)
	h := pack.NewHitMapPack1()
	h.Hit[3] = 9
	l := pack.NewLogSinkPack()
	l.Category, l.Content, l.Line, l.Time = "log", "line content", 12, 99
	return []pack.Pack{t, p, e, tc, h, l}
}

func zipChecks(c *evid.Ctx, evals, nontriv *int64, maxLen int) {
	alpha := innerAlphabet()
	var seqs [][]int
	var rec func(cur []int)
	rec = func(cur []int) {
		seqs = append(seqs, append([]int{}, cur...))
		if len(cur) == maxLen {
			return
		}
		for i := range alpha {
			rec(append(cur, i))
		}
	}
	rec(nil)
	for _, seq := range seqs {
		for _, hdr := range [][4]int64{{77, 5, 0, 0}, {1 << 40, -5, 3, 0}, {0, 0, 0, 9}} {
			// the inner packs carry an identity of their own (none / a complete one / a node only): the
			// container's must replace it whichever header form either side uses
			for _, inner := range [][4]int64{{0, 0, 0, 0}, {123, 45, 7, 9}, {0, 0, 0, 4}} {
				if len(seq) == 0 && inner != [4]int64{} {
					continue
				}
				atomic.AddInt64(evals, 1)
				if len(seq) > 0 {
					atomic.AddInt64(nontriv, 1)
				}
				func() {
					desc := fmt.Sprintf("ZipPack of inner packs %v (own identity %v) with identity %v", seq, inner, hdr)
					defer func() {
						if r := recover(); r != nil {
							c.Violation("C03:ZipPack:inner:panic", fmt.Sprintf("%s: panic: %v", desc, r), nil)
						}
					}()
					var items []pack.Pack
					for _, i := range seq {
						it := pack.ToPack(pack.ToBytesPack(alpha[i]))
						it.SetPCODE(inner[0])
						it.SetOID(int32(inner[1]))
						it.SetOKIND(int32(inner[2]))
						it.SetONODE(int32(inner[3]))
						items = append(items, it)
					}
					z := pack.NewZipPack()
					z.Pcode, z.Oid, z.Okind, z.Onode = hdr[0], int32(hdr[1]), int32(hdr[2]), int32(hdr[3])
					z.SetRecords(items)
					dec := pack.ToPack(pack.ToBytesPack(z))
					dz, ok := dec.(*pack.ZipPack)
					if !ok {
						c.Violation("C03:ZipPack:inner:type", fmt.Sprintf("%s: decoded to %T", desc, dec), nil)
						return
					}
					got := dz.GetRecords()
					if len(got) != len(items) || dz.RecordCount != len(items) {
						c.Violation("C03:ZipPack:inner:count", fmt.Sprintf("%s: %d records returned, RecordCount %d", desc, len(got), dz.RecordCount), nil)
						return
					}
					for i, it := range items {
						// expected: the original inner pack stamped with the container's identity
						want := pack.ToPack(pack.ToBytesPack(it))
						want.SetPCODE(z.Pcode)
						want.SetOID(z.Oid)
						want.SetOKIND(z.Okind)
						want.SetONODE(z.Onode)
						if !bytes.Equal(pack.ToBytesPack(want), pack.ToBytesPack(got[i])) {
							c.Violation("C03:ZipPack:inner:content", fmt.Sprintf("%s: inner pack %d (%T) is not the original stamped with the container's pcode/oid/okind/onode", desc, i, it), nil)
							return
						}
					}
				}()
			}
		}
	}
	// log-sink zip: concatenated LogSinkPacks, compression exactly from the threshold
	var innerID, contID [4]int64
	mk := func(i int) *pack.LogSinkPack {
		l := pack.NewLogSinkPack()
		l.Pcode, l.Oid, l.Okind, l.Onode = innerID[0], int32(innerID[1]), int32(innerID[2]), int32(innerID[3])
		l.Category = "app"
		l.Content = fmt.Sprintf("content-%d-%s", i, string(bytes.Repeat([]byte{'x'}, i*40)))
		l.Line = int64(i)
		l.Time = int64(1000 + i)
		l.Tags.PutString("host", "h")
		if i%2 == 1 {
			l.Fields.PutString("f", "v")
		}
		return l
	}
	for _, ids := range [][2][4]int64{{{88, 7, 6, 5}, {0, 0, 0, 0}}, {{88, 7, 6, 5}, {123, 45, 7, 9}}, {{88, 7, 0, 0}, {123, 45, 7, 9}}, {{0, 0, 0, 0}, {0, 0, 0, 4}}} {
		contID, innerID = ids[0], ids[1]
		for n := 0; n <= maxLen+1; n++ {
			out := gio.NewDataOutputX()
			var orig []*pack.LogSinkPack
			for i := 0; i < n; i++ {
				l := mk(i)
				orig = append(orig, l)
				pack.WritePack(out, l)
			}
			raw := append([]byte{}, out.ToByteArray()...)
			for _, th := range []int{0, len(raw) - 1, len(raw), len(raw) + 1, 1 << 20} {
				if th < 0 {
					continue
				}
				atomic.AddInt64(evals, 1)
				atomic.AddInt64(nontriv, 1)
				func() {
					desc := fmt.Sprintf("LogSinkZipPack (identity %v) of %d records (own identity %v, %d bytes) with compression threshold %d", contID, n, innerID, len(raw), th)
					defer func() {
						if r := recover(); r != nil {
							c.Violation("C03:LogSinkZipPack:inner:panic", fmt.Sprintf("%s: panic: %v", desc, r), nil)
						}
					}()
					z := pack.NewLogSinkZipPack()
					z.Pcode, z.Oid, z.Okind, z.Onode = contID[0], int32(contID[1]), int32(contID[2]), int32(contID[3])
					z.RecordCount = n
					z.SetRecords(append([]byte{}, raw...), th)
					wantZip := len(raw) >= th
					if (z.Status == pack.ZIPPED) != wantZip {
						c.Violation("C03:LogSinkZipPack:threshold", fmt.Sprintf("%s: status %d", desc, z.Status), nil)
					}
					if z.Status == pack.ZIPPED {
						if un, err := compressutil.UnZip(z.Records); err != nil || !bytes.Equal(un, raw) {
							c.Violation("C03:LogSinkZipPack:gzip", fmt.Sprintf("%s: payload does not decompress to the records (%v)", desc, err), nil)
						}
					} else if !bytes.Equal(z.Records, raw) {
						c.Violation("C03:LogSinkZipPack:payload", desc+": uncompressed payload differs from the records", nil)
					}
					dec, ok := pack.ToPack(pack.ToBytesPack(z)).(*pack.LogSinkZipPack)
					if !ok {
						c.Violation("C03:LogSinkZipPack:inner:type", desc+": wrong decoded type", nil)
						return
					}
					got := dec.GetRecords()
					if len(got) != n {
						c.Violation("C03:LogSinkZipPack:inner:count", fmt.Sprintf("%s: %d records returned", desc, len(got)), nil)
						return
					}
					for i, l := range orig {
						want := pack.ToPack(pack.ToBytesPack(l)).(*pack.LogSinkPack)
						want.Pcode, want.Oid, want.Okind, want.Onode = contID[0], int32(contID[1]), int32(contID[2]), int32(contID[3])
						if !bytes.Equal(pack.ToBytesPack(want), pack.ToBytesPack(got[i])) {
							c.Violation("C03:LogSinkZipPack:inner:content", fmt.Sprintf("%s: record %d differs from the original stamped with the container's identity", desc, i), nil)
							return
						}
					}
				}()
			}
		}
	}
	bigZips(c, evals, nontriv)
}

// bigZips: payloads around the sizes at which a (de)compressor works in windows (32 KiB) and at the
// zip sender's default buffer (64 KiB), with compressible and incompressible record contents, through
// LogSinkZipPack and through the compression helpers themselves.
func bigZips(c *evid.Ctx, evals, nontriv *int64) {
	noise := func(n int, seed uint32) string { // deterministic, incompressible, printable
		b := make([]byte, n)
		x := seed*2654435761 + 1
		for i := range b {
			x ^= x << 13
			x ^= x >> 17
			x ^= x << 5
			b[i] = byte('!' + x%90)
		}
		return string(b)
	}
	for _, target := range []int{32767, 32768, 32769, 65535, 65536, 65537, 200000} {
		for _, kind := range []string{"repetitive", "noise"} {
			atomic.AddInt64(evals, 1)
			atomic.AddInt64(nontriv, 1)
			desc := fmt.Sprintf("LogSinkZipPack with a %s payload of %d bytes", kind, target)
			func() {
				defer func() {
					if r := recover(); r != nil {
						c.Violation("C03:LogSinkZipPack:big:panic", fmt.Sprintf("%s: panic: %v", desc, r), nil)
					}
				}()
				// records of ~1000 bytes, the last one sized so that the payload has exactly the target length
				out := gio.NewDataOutputX()
				var orig []*pack.LogSinkPack
				for i := 0; out.Size() < target; i++ {
					l := pack.NewLogSinkPack()
					l.Category, l.Line, l.Time = "big", int64(i), int64(5000+i)
					body := func(n int) string {
						if kind == "noise" {
							return noise(n, uint32(i+1))
						}
						return string(bytes.Repeat([]byte{'r'}, n))
					}
					l.Content = body(1000)
					probe := gio.NewDataOutputX()
					pack.WritePack(probe, l)
					if rest := target - int(out.Size()); int(probe.Size()) > rest {
						// shrink the content so that this record ends exactly at the target (the text
						// length prefix is 3 bytes for 255..65535 and 1 byte below 254)
						over := int(probe.Size()) - rest
						n := 1000 - over
						if n < 254 {
							n += 2
						}
						if n < 0 {
							n = 0
						}
						l.Content = body(n)
					}
					orig = append(orig, l)
					pack.WritePack(out, l)
				}
				raw := append([]byte{}, out.ToByteArray()...)
				if len(raw) != target {
					c.Info("bigZips: payload of %d bytes built for the target %d", len(raw), target)
				}
				// the helpers themselves
				zipped, err := compressutil.DoZip(raw)
				if err != nil {
					c.Violation("C03:compressutil:DoZip", fmt.Sprintf("%s: DoZip failed: %v", desc, err), nil)
					return
				}
				if un, err := compressutil.UnZip(zipped); err != nil || !bytes.Equal(un, raw) {
					c.Violation("C03:compressutil:round-trip", fmt.Sprintf("%s (%d bytes exactly): UnZip(DoZip(x)) differs from x at byte %d (error %v)", desc, len(raw), firstDiffB(un, raw), err), nil)
					return
				}
				z := pack.NewLogSinkZipPack()
				z.Pcode, z.Oid = 9, 8
				z.RecordCount = len(orig)
				z.SetRecords(append([]byte{}, raw...), 100)
				if z.Status != pack.ZIPPED {
					c.Violation("C03:LogSinkZipPack:threshold", fmt.Sprintf("%s: not compressed although the threshold is 100", desc), nil)
				}
				dec, ok := pack.ToPack(pack.ToBytesPack(z)).(*pack.LogSinkZipPack)
				if !ok {
					c.Violation("C03:LogSinkZipPack:inner:type", desc+": wrong decoded type", nil)
					return
				}
				got := dec.GetRecords()
				if len(got) != len(orig) {
					c.Violation("C03:LogSinkZipPack:inner:count", fmt.Sprintf("%s: %d records returned, %d were put in", desc, len(got), len(orig)), nil)
					return
				}
				for i, l := range orig {
					want := pack.ToPack(pack.ToBytesPack(l)).(*pack.LogSinkPack)
					want.Pcode, want.Oid = 9, 8
					if !bytes.Equal(pack.ToBytesPack(want), pack.ToBytesPack(got[i])) {
						c.Violation("C03:LogSinkZipPack:inner:content", fmt.Sprintf("%s: record %d of %d differs from the original", desc, i, len(orig)), nil)
						return
					}
				}
			}()
		}
	}
}

func firstDiffB(a, b []byte) int {
	for i := 0; i < len(a) && i < len(b); i++ {
		if a[i] != b[i] {
			return i
		}
	}
	if len(a) < len(b) {
		return len(a)
	}
	return len(b)
}

// twoContainers: a container that has been filled must keep returning its records when another
// container is filled before it is serialised (a compressor that recycles its output buffer, or a
// payload that aliases a shared scratch area, only shows with two containers alive at once).
func twoContainers(c *evid.Ctx, evals, nontriv *int64, maxLen int) {
	mk := func(tag string, i int) *pack.LogSinkPack {
		l := pack.NewLogSinkPack()
		l.Category = "app-" + tag
		l.Content = fmt.Sprintf("%s-content-%d-%s", tag, i, string(bytes.Repeat([]byte{'y'}, i*30)))
		l.Line = int64(i)
		l.Time = int64(2000 + i)
		l.Tags.PutString("host", tag)
		return l
	}
	rawOf := func(tag string, n int) ([]byte, []*pack.LogSinkPack) {
		out := gio.NewDataOutputX()
		var orig []*pack.LogSinkPack
		for i := 0; i < n; i++ {
			l := mk(tag, i)
			orig = append(orig, l)
			pack.WritePack(out, l)
		}
		return append([]byte{}, out.ToByteArray()...), orig
	}
	verify := func(desc, which string, z *pack.LogSinkZipPack, orig []*pack.LogSinkPack) {
		defer func() {
			if r := recover(); r != nil {
				c.Violation("C03:LogSinkZipPack:two-containers:panic", fmt.Sprintf("%s: %s container: panic: %v", desc, which, r), nil)
			}
		}()
		dec, ok := pack.ToPack(pack.ToBytesPack(z)).(*pack.LogSinkZipPack)
		if !ok {
			c.Violation("C03:LogSinkZipPack:two-containers:type", desc+": wrong decoded type", nil)
			return
		}
		got := dec.GetRecords()
		if len(got) != len(orig) {
			c.Violation("C03:LogSinkZipPack:two-containers:count", fmt.Sprintf("%s: the %s container returns %d records, %d were put in", desc, which, len(got), len(orig)), nil)
			return
		}
		for i, l := range orig {
			want := pack.ToPack(pack.ToBytesPack(l)).(*pack.LogSinkPack)
			want.Pcode, want.Oid, want.Okind, want.Onode = z.Pcode, z.Oid, z.Okind, z.Onode
			if !bytes.Equal(pack.ToBytesPack(want), pack.ToBytesPack(got[i])) {
				c.Violation("C03:LogSinkZipPack:two-containers:content", fmt.Sprintf("%s: record %d of the %s container differs from the original", desc, i, which), nil)
				return
			}
		}
	}
	for n1 := 1; n1 <= maxLen+2; n1++ {
		for n2 := 1; n2 <= maxLen+2; n2++ {
			for _, th := range []int{0, 1 << 20} {
				for rep := 0; rep < 3; rep++ {
					atomic.AddInt64(evals, 1)
					atomic.AddInt64(nontriv, 1)
					desc := fmt.Sprintf("LogSinkZipPack A (%d records) filled, then LogSinkZipPack B (%d records) filled, compression threshold %d, then both serialised and read back", n1, n2, th)
					rawA, origA := rawOf("A", n1)
					rawB, origB := rawOf("B", n2)
					a := pack.NewLogSinkZipPack()
					a.Pcode, a.Oid = 11, 1
					a.RecordCount = n1
					a.SetRecords(rawA, th)
					b := pack.NewLogSinkZipPack()
					b.Pcode, b.Oid = 22, 2
					b.RecordCount = n2
					b.SetRecords(rawB, th)
					verify(desc, "first", a, origA)
					verify(desc, "second", b, origB)
				}
			}
		}
	}
}

// containerChecks: zip / log-sink zip / record-list packs return their inner packs or records
// unchanged, in order and stamped with the container's identity. (CompositePack is covered by the
// generic deviation run through its hint.)
func containerChecks(c *evid.Ctx, evals, nontriv *int64) {
	recordLists(c, evals, nontriv)
	ml := 2
	if c.Thorough() {
		ml = 3
	}
	zipChecks(c, evals, nontriv, ml)
	twoContainers(c, evals, nontriv, ml)
	smBase(c, evals, nontriv)
	// interference between two uses of the codec, per pack type (typical object vs constructor object,
	// and vs the typical object of the next type)
	for i := range packs.Registry {
		t := &packs.Registry[i]
		nt := &packs.Registry[(i+1)%len(packs.Registry)]
		a, _ := packs.Assignment{Type: t, Base: 1, Dev: map[string]int{}}.Build()
		b0, _ := packs.Assignment{Type: t, Base: 0, Dev: map[string]int{}}.Build()
		b1, _ := packs.Assignment{Type: nt, Base: 1, Dev: map[string]int{}}.Build()
		for _, b := range []interface{}{b0, b1} {
			atomic.AddInt64(evals, 1)
			atomic.AddInt64(nontriv, 1)
			packs.Interference(c, "C03", t.Name, a, b,
				func(o interface{}) []byte {
					bs, err := packs.Encode(o)
					if err != nil {
						return nil
					}
					return bs
				},
				func(bs []byte) interface{} {
					in := gio.NewDataInputX(bs)
					var out interface{}
					func() {
						defer func() { recover() }()
						out = pack.ReadPack(in)
					}()
					return out
				})
		}
	}
}
