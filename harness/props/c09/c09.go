// Package c09: linked hash maps/sets behave as bounded insertion-ordered dictionaries (E2).
package c09

import (
	"verif/engine/evid"
	"verif/props/collseq"
)

func Run(c *evid.Ctx) {
	collseq.Run(c, map[string]bool{"linkedmap": true, "linkedset": true})
}
