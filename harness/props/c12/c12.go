// Package c12: plain hash maps and sets behave as mathematical maps and sets (E2).
package c12

import (
	"verif/engine/evid"
	"verif/props/collseq"
)

func Run(c *evid.Ctx) {
	collseq.Run(c, map[string]bool{"map": true, "set": true})
}
