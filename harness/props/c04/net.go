package c04

import (
	"fmt"
	"io"
	"net"
	"strings"
	"time"

	"verif/engine/evid"

	gio "github.com/whatap/golib/io"
	"github.com/whatap/golib/lang/pack"
	"github.com/whatap/golib/lang/service"
	"github.com/whatap/golib/lang/step"
	"github.com/whatap/golib/lang/value"
)

// eofConn delivers a byte string in fragments of three bytes and then reports a clean end of stream.
type eofConn struct {
	data []byte
	pos  int
}

func (c *eofConn) Read(p []byte) (int, error) {
	if c.pos >= len(c.data) {
		return 0, io.EOF
	}
	n := 3
	if n > len(p) {
		n = len(p)
	}
	if n > len(c.data)-c.pos {
		n = len(c.data) - c.pos
	}
	copy(p, c.data[c.pos:c.pos+n])
	c.pos += n
	return n, nil
}
func (c *eofConn) Write(p []byte) (int, error)        { return len(p), nil }
func (c *eofConn) Close() error                       { return nil }
func (c *eofConn) LocalAddr() net.Addr                { return nil }
func (c *eofConn) RemoteAddr() net.Addr               { return nil }
func (c *eofConn) SetDeadline(t time.Time) error      { return nil }
func (c *eofConn) SetReadDeadline(t time.Time) error  { return nil }
func (c *eofConn) SetWriteDeadline(t time.Time) error { return nil }

// netTruncation: the same decoders over the network form of the input (NewDataInputNet): the peer
// sends a strict prefix of a valid encoding and closes the connection cleanly. Every cut point - in
// the middle of a field and exactly between two fields - must end in a failure, never in an object
// made of bytes that did not arrive. One encoding per kind (the first of the corpus), every prefix.
func netTruncation(c *evid.Ctx, items []item) {
	seen := map[string]bool{}
	var evals int64
	for i := range items {
		it := &items[i]
		if seen[it.kind] || len(it.bytes) > 2048 {
			continue
		}
		var dec func(in *gio.DataInputX)
		switch {
		case it.kind == "value":
			dec = func(in *gio.DataInputX) { value.ReadValue(in) }
		case strings.HasPrefix(it.kind, "step:"):
			dec = func(in *gio.DataInputX) { step.ReadStep(in) }
		case strings.HasPrefix(it.kind, "pack:"):
			dec = func(in *gio.DataInputX) { pack.ReadPack(in) }
		case strings.HasPrefix(it.kind, "service"):
			dec = func(in *gio.DataInputX) { service.ToObject(in) }
		default:
			continue
		}
		seen[it.kind] = true
		// the whole encoding must decode over the network form, else the kind is not a network message
		if !netTry(dec, it.bytes) {
			continue
		}
		for cut := 0; cut < len(it.bytes); cut++ {
			evals++
			if netTry(dec, it.bytes[:cut]) {
				c.Violation(fmt.Sprintf("C04:net-truncation:%s", it.kind), fmt.Sprintf("%s (%s) read from a connection: the peer sent the first %d of %d bytes and closed; decoding returned an object instead of failing", it.kind, it.desc, cut, len(it.bytes)),
					map[string]interface{}{"engine": "E4", "kind": it.kind, "encoding": fmt.Sprintf("%x", clip(it.bytes)), "prefix_length": cut})
				break
			}
		}
	}
	c.Count("net_truncation_decodes", evals)
	c.Count("evaluations", evals)
}

func netTry(dec func(in *gio.DataInputX), b []byte) (returned bool) {
	defer func() {
		if r := recover(); r != nil {
			returned = false
		}
	}()
	dec(gio.NewDataInputNet(&eofConn{data: append([]byte{}, b...)}))
	return true
}
