// Package c04 decides C04: decoders fail closed — every strict prefix of every corpus encoding must
// be refused (truncation enumeration), hostile overwrites of every byte window must terminate with
// allocation proportional to the input (fault enumeration, engine E4).
package c04

import (
	"bytes"
	"encoding/binary"
	"fmt"
	"os"
	"os/exec"
	"reflect"
	"runtime/metrics"
	"sort"
	"strings"
	"sync"
	"sync/atomic"

	"verif/engine/evid"
	"verif/engine/shard"
	"verif/props/packs"
	"verif/props/vals"
	"verif/refenc"

	gio "github.com/whatap/golib/io"
	"github.com/whatap/golib/lang/pack"
	"github.com/whatap/golib/lang/pack/udp"
	"github.com/whatap/golib/lang/service"
	"github.com/whatap/golib/lang/step"
	"github.com/whatap/golib/lang/value"
)

// item is one valid encoding together with the public entry point that decodes it.
type item struct {
	kind  string // value | pack:<Type> | step:<Type> | txrecord | service | udp:<Type>:<ver>
	desc  string
	bytes []byte
	dec   func(b []byte) // panics on failure
	// allOffsets: overwrite every offset even in the quick tier
	allOffsets bool
	idx        int // position in the full, sorted corpus (what the progress file refers to)
}

func decValue(b []byte) { value.ReadValue(gio.NewDataInputX(b)) }
func decStep(b []byte)  { step.ReadStep(gio.NewDataInputX(b)) }
func decTx(b []byte)    { service.NewTxRecord().ToObject(b) }
func decSvc(b []byte)   { service.ToObject(gio.NewDataInputX(b)) }

func corpus(thorough bool) []item {
	var out []item
	seen := map[string]bool{}
	add := func(it item) {
		k := it.kind + "\x00" + string(it.bytes)
		if len(it.bytes) == 0 || seen[k] {
			return
		}
		seen[k] = true
		out = append(out, it)
	}
	// values: scalars and small containers
	var vs []*vals.Spec
	vs = append(vs, vals.Scalars(1)...)
	reps := vals.Scalars(0)
	for _, a := range reps {
		vs = append(vs, vals.List(a), vals.Map([]string{"k"}, a), vals.IMap([]int32{5}, a))
		for _, b := range reps[:6] {
			vs = append(vs, vals.List(a, b), vals.Map([]string{"k", "k2"}, a, b))
		}
	}
	vs = append(vs, vals.List(vals.List(reps[2], vals.Map([]string{"x"}, reps[9]))), &vals.Spec{T: vals.TText, S: strings.Repeat("t", 300)}, &vals.Spec{T: vals.TBlob, Bytes: make([]byte, 70000)})
	for _, s := range vs {
		var b refenc.B
		vals.Ref(&b, s)
		add(item{"value", s.String(), b, decValue, false, 0})
	}
	// packs: both bases and every single deviation
	packs.Discover()
	for ti := range packs.Registry {
		t := &packs.Registry[ti]
		k := 1
		packs.Enumerate(t, k, func(a packs.Assignment) {
			if !thorough && len(a.Dev) > 0 && a.Base == 0 {
				return // quick: deviations from the all-typical base only
			}
			obj, _ := a.Build()
			v := packs.RoundTrip(t, obj)
			if v.Class != "" || v.Bytes == nil {
				return // only encodings that decode today are "valid encodings"
			}
			tt := t
			add(item{"pack:" + t.Name, a.String(), v.Bytes, func(b []byte) {
				if _, _, err := packs.Decode(tt, b); err != nil {
					panic(err)
				}
			}, false, 0})
		})
	}
	// steps
	for tag := 0; tag < 256; tag++ {
		s := step.CreateStep(byte(tag))
		if s == nil {
			continue
		}
		rt := reflect.TypeOf(s).Elem()
		for base := 0; base <= 1; base++ {
			o := reflect.New(rt).Interface().(step.Step)
			if base == 1 {
				fillTypical(o)
			}
			func() {
				defer func() { recover() }()
				out := gio.NewDataOutputX()
				step.WriteStep(out, o)
				add(item{"step:" + rt.Name(), fmt.Sprintf("base%d", base), append([]byte{}, out.ToByteArray()...), decStep, false, 0})
			}()
		}
	}
	// transaction record and services
	for base := 0; base <= 1; base++ {
		t := service.NewTxRecord()
		if base == 1 {
			fillTypical(t)
			t.Fields = value.NewMapValue()
			t.Fields.PutString("f", "v")
		}
		add(item{"txrecord", fmt.Sprintf("base%d", base), append([]byte{}, t.ToBytes()...), decTx, false, 0})
		for _, s := range []service.Service{service.NewWasService(), service.NewAppService(), service.NewWasService2()} {
			if base == 1 {
				fillTypical(s)
			}
			out := gio.NewDataOutputX()
			service.ToBytes(s, out)
			add(item{"service", fmt.Sprintf("%T base%d", s, base), append([]byte{}, out.ToByteArray()...), decSvc, false, 0})
		}
	}
	// udp packs at one version per family
	for tag := 0; tag < 256; tag++ {
		p := udp.CreatePack(uint8(tag), 50100)
		if p == nil || reflect.ValueOf(p).IsNil() {
			continue
		}
		rt := reflect.TypeOf(p).Elem()
		if rt.Name() == "UdpRelayPack" {
			continue // raw payload of a length the receiver supplies: no self-delimiting body
		}
		for _, ver := range []int32{10110, 20104, 30103, 40001, 50101} {
			for base := 0; base <= 1; base++ {
				o := reflect.New(rt).Interface().(udp.UdpPack)
				o.SetVersion(ver)
				if base == 1 {
					fillTypical(o)
					o.SetVersion(ver)
				}
				tag, ver := uint8(tag), ver
				func() {
					defer func() { recover() }()
					b := append([]byte{}, udp.ToBytesPack(o)...)
					add(item{fmt.Sprintf("udp:%s:%s", rt.Name(), fam(ver)), fmt.Sprintf("v%d base%d", ver, base), b, func(b []byte) { udp.ToPack(tag, ver, b) }, false, 0})
				}()
			}
		}
	}
	return out
}

func fam(v int32) string {
	switch {
	case v > 50000:
		return "go"
	case v > 40000:
		return "batch"
	case v > 30000:
		return "dotnet"
	case v > 20000:
		return "python"
	}
	return "php"
}

func fillTypical(o interface{}) {
	a := packs.Assignment{}
	_ = a
	packs.FillTypical(o)
}

// try decodes and reports whether the decoder returned normally.
func try(it *item, b []byte) (returned bool, msg string) {
	defer func() {
		if r := recover(); r != nil {
			returned = false
			msg = fmt.Sprint(r)
		}
	}()
	it.dec(b)
	return true, ""
}

// ---- truncation ------------------------------------------------------------------------------------

func truncation(c *evid.Ctx, items []item) {
	var evals int64
	var wg sync.WaitGroup
	ch := make(chan *item, 64)
	for w := 0; w < 16; w++ {
		wg.Add(1)
		go func() {
			defer wg.Done()
			for it := range ch {
				n := len(it.bytes)
				// long payloads: every prefix near the ends and a stride in the middle
				for cut := 0; cut < n; cut++ {
					if n > 2048 && cut > 600 && cut < n-600 && cut%257 != 0 {
						continue
					}
					atomic.AddInt64(&evals, 1)
					if ok, _ := try(it, it.bytes[:cut]); ok {
						c.Violation(fmt.Sprintf("C04:truncation:%s", it.kind), fmt.Sprintf("%s (%s): decoding the first %d of %d bytes returns an object instead of failing", it.kind, it.desc, cut, n),
							map[string]interface{}{"engine": "E4", "kind": it.kind, "encoding": fmt.Sprintf("%x", clip(it.bytes)), "prefix_length": cut})
						break
					}
				}
			}
		}()
	}
	for i := range items {
		ch <- &items[i]
	}
	close(ch)
	wg.Wait()
	c.Count("truncation_decodes", evals)
	c.Count("evaluations", evals)
}

// primitive reads on every short buffer
func primitives(c *evid.Ctx) {
	type rd struct {
		name  string
		width int
		f     func(in *gio.DataInputX)
	}
	rds := []rd{
		{"ReadBool", 1, func(in *gio.DataInputX) { in.ReadBool() }}, {"ReadByte", 1, func(in *gio.DataInputX) { in.ReadByte() }},
		{"ReadShort", 2, func(in *gio.DataInputX) { in.ReadShort() }}, {"ReadUShort", 2, func(in *gio.DataInputX) { in.ReadUShort() }},
		{"ReadInt3", 3, func(in *gio.DataInputX) { in.ReadInt3() }}, {"ReadInt", 4, func(in *gio.DataInputX) { in.ReadInt() }},
		{"ReadLong5", 5, func(in *gio.DataInputX) { in.ReadLong5() }}, {"ReadLong", 8, func(in *gio.DataInputX) { in.ReadLong() }},
		{"ReadFloat", 4, func(in *gio.DataInputX) { in.ReadFloat() }}, {"ReadDouble", 8, func(in *gio.DataInputX) { in.ReadDouble() }},
		{"ReadIntLittle", 4, func(in *gio.DataInputX) { in.ReadIntLittle() }}, {"ReadShortLittle", 2, func(in *gio.DataInputX) { in.ReadShortLittle() }},
	}
	for _, r := range rds {
		for n := 0; n < r.width; n++ {
			c.Count("evaluations", 1)
			func() {
				defer func() { recover() }()
				r.f(gio.NewDataInputX(make([]byte, n)))
				c.Violation("C04:primitive:"+r.name, fmt.Sprintf("%s on a %d-byte buffer returns a value made of bytes that are not in the input", r.name, n), nil)
			}()
		}
	}
	// decimal / blob / text with a length byte but a short body
	for _, lb := range []byte{1, 2, 3, 4, 5, 8, 9} {
		for n := 0; n < int(lb) && n < 8; n++ {
			c.Count("evaluations", 1)
			func() {
				defer func() { recover() }()
				gio.NewDataInputX(append([]byte{lb}, make([]byte, n)...)).ReadDecimal()
				if lb <= 8 {
					c.Violation("C04:primitive:ReadDecimal", fmt.Sprintf("ReadDecimal with length byte %d and %d payload bytes returns a value", lb, n), nil)
				}
			}()
		}
	}
	// size-limited frame read
	for _, max := range []int{0, 1, 8, 9} {
		for _, ln := range []int32{-1, 0, int32(max), int32(max) + 1, 1<<31 - 1} {
			c.Count("evaluations", 1)
			var b refenc.B
			b.I32(ln)
			b.Raw(make([]byte, 8))
			func() {
				defer func() { recover() }()
				got := gio.NewDataInputX(b).ReadIntBytesLimit(max)
				if ln < 0 || int(ln) > max || int(ln) > 8 {
					c.Violation("C04:primitive:ReadIntBytesLimit", fmt.Sprintf("ReadIntBytesLimit(%d) accepted a length field of %d and returned %d bytes", max, ln, len(got)), nil)
				}
			}()
		}
	}
}

// unknown type codes must be refused, not dereferenced silently
func unknownTags(c *evid.Ctx) {
	for code := 0; code < 256; code++ {
		known := false
		for _, t := range vals.AllTypes {
			if int(t) == code {
				known = true
			}
		}
		if known {
			continue
		}
		c.Count("evaluations", 1)
		if ok, _ := try(&item{dec: decValue}, []byte{byte(code), 0, 0, 0, 0, 0, 0, 0, 0}); ok {
			c.Violation("C04:unknown-tag:value", fmt.Sprintf("ReadValue accepts the unknown type code %d", code), nil)
		}
	}
	for tag := 0; tag < 256; tag++ {
		if step.CreateStep(byte(tag)) != nil {
			continue
		}
		c.Count("evaluations", 1)
		if ok, _ := try(&item{dec: decStep}, append([]byte{byte(tag)}, make([]byte, 16)...)); ok {
			c.Violation("C04:unknown-tag:step", fmt.Sprintf("ReadStep accepts the unknown step tag %d", tag), nil)
		}
	}
	for code := -32768; code <= 32767; code += 1 {
		var p pack.Pack
		func() {
			defer func() { recover() }()
			p = pack.CreatePack(int16(code))
		}()
		if p != nil {
			continue
		}
		if code%97 != 0 && code > 300 {
			continue
		}
		c.Count("evaluations", 1)
		var b refenc.B
		b.I16(int16(code))
		b.Raw(make([]byte, 32))
		if ok, _ := try(&item{dec: func(x []byte) { pack.ToPack(x) }}, b); ok {
			c.Violation("C04:unknown-tag:pack", fmt.Sprintf("ToPack accepts the unknown pack type 0x%04x", uint16(code)), nil)
		}
	}
}

// ---- hostile overwrite (runs in single-threaded worker processes) -----------------------------------------

var hostile1 = []byte{0x00, 0x7f, 0x80, 0xfe, 0xff, 0x08}
var hostile2 = [][]byte{{0x7f, 0xff}, {0xff, 0xff}, {0x80, 0x00}}
var hostile4 = [][]byte{{0x00, 0xff, 0xff, 0xff}, {0x01, 0x00, 0x00, 0x00}, {0x7f, 0xff, 0xff, 0xff}, {0x7f, 0xff, 0xff, 0xf0}, {0x80, 0x00, 0x00, 0x00}}
var hostile5 = [][]byte{{0x04, 0x00, 0xff, 0xff, 0xff}, {0x03, 0xff, 0xff, 0xff, 0x00}, {0x04, 0x7f, 0xff, 0xff, 0xff}, {0xfe, 0x7f, 0xff, 0xff, 0xff}, {0xfe, 0x7f, 0xff, 0xff, 0xf0}} // ... and a blob/text length prefix turned into its 4-byte form with a 2^31-scale length // decimal of 4 / 3 bytes carrying a 16 Mi-scale count

func allocNow(s []metrics.Sample) uint64 {
	metrics.Read(s)
	return s[0].Value.Uint64()
}

// progress: the worker notes the case it is about to run, so that the parent can attribute a fatal
// runtime error (out of memory is not recoverable) to the input that caused it and resume after it.
type progress struct {
	f *os.File
}

func (p *progress) note(item, off, pat int) {
	if p.f == nil {
		return
	}
	var b [12]byte
	binary.LittleEndian.PutUint32(b[0:], uint32(item))
	binary.LittleEndian.PutUint32(b[4:], uint32(off))
	binary.LittleEndian.PutUint32(b[8:], uint32(pat))
	p.f.WriteAt(b[:], 0)
}

func hostile(c *evid.Ctx, items []item, w *shard.W, maxOff int) {
	sample := []metrics.Sample{{Name: "/gc/heap/allocs:bytes"}}
	var evals int64
	buf := make([]byte, 0, 1<<17)
	pr := &progress{}
	if pf := os.Getenv("VERIF_C04_PROGRESS"); pf != "" {
		pr.f, _ = os.OpenFile(pf, os.O_RDWR|os.O_CREATE, 0o644)
	}
	allocViols := 0
	resItem, resOff, resPat := -1, -1, -1
	if r := os.Getenv("VERIF_C04_RESUME"); r != "" {
		fmt.Sscanf(r, "%d,%d,%d", &resItem, &resOff, &resPat)
	}
	for i := range items {
		if i%w.N != w.I || items[i].idx < resItem {
			continue
		}
		it := &items[i]
		n := len(it.bytes)
		if n > 4096 {
			continue
		}
		lim := n
		if maxOff > 0 && lim > maxOff && !it.allOffsets {
			lim = maxOff
		}
		patNo := 0
		apply := func(off int, pat []byte) {
			patNo++
			if off+len(pat) > n || allocViols >= 10 {
				return
			}
			if it.idx == resItem && (off < resOff || off == resOff && patNo <= resPat) {
				return // resuming after a case that killed the previous worker
			}
			pr.note(it.idx, off, patNo)
			buf = append(buf[:0], it.bytes...)
			copy(buf[off:], pat)
			before := allocNow(sample)
			try(it, buf)
			grown := allocNow(sample) - before
			evals++
			bound := uint64(64*n) + 1<<20
			if grown > bound {
				// a decoder that allocates from a hostile length costs up to seconds per case: after ten
				// such violations this worker stops the pass (only ever reached on a broken tree)
				allocViols++
				if allocViols == 10 {
					c.NotExhaustive("hostile pass stopped in one worker after 10 allocation violations")
				}
				c.Violation(fmt.Sprintf("C04:allocation:%s", it.kind), fmt.Sprintf("%s (%s): overwriting offset %d with % x makes the decoder allocate %d bytes for a %d-byte input (bound %d)", it.kind, it.desc, off, pat, grown, n, bound),
					map[string]interface{}{"engine": "E4", "kind": it.kind, "encoding": fmt.Sprintf("%x", clip(it.bytes)), "offset": off, "pattern": fmt.Sprintf("%x", pat), "allocated": grown})
			}
		}
		for off := 0; off < lim; off++ {
			patNo = 0
			for _, b := range hostile1 {
				apply(off, []byte{b})
			}
			for _, p := range hostile2 {
				apply(off, p)
			}
			for _, p := range hostile4 {
				apply(off, p)
			}
			for _, p := range hostile5 {
				apply(off, p)
			}
		}
	}
	c.Count("hostile_decodes", evals)
	c.Count("evaluations", evals)
}

// spawnHostile runs the hostile pass in worker processes and restarts a worker after the case that
// killed it (a decoder that brings the process down is the worst form of the violation).
func spawnHostile(c *evid.Ctx, items []item, n int) {
	var wg sync.WaitGroup
	var mu sync.Mutex
	dir, _ := os.MkdirTemp(evid.Root+"/.build", "c04-")
	defer os.RemoveAll(dir)
	for i := 0; i < n; i++ {
		wg.Add(1)
		go func(i int) {
			defer wg.Done()
			pf := fmt.Sprintf("%s/progress-%d", dir, i)
			resume := ""
			for restart := 0; restart < 400; restart++ {
				os.Remove(pf)
				cmd := exec.Command(os.Args[0], os.Args[1:]...)
				cmd.Env = append(os.Environ(), fmt.Sprintf("VERIF_WORKER=%d/%d", i, n), "GOMAXPROCS=1", "VERIF_C04_PROGRESS="+pf, "VERIF_C04_RESUME="+resume)
				var out, errb bytes.Buffer
				cmd.Stdout, cmd.Stderr = &out, &errb
				err := cmd.Run()
				merged := false
				mu.Lock()
				for _, line := range strings.Split(out.String(), "\n") {
					if strings.HasPrefix(line, "WORKER-RESULT ") {
						if c.Merge([]byte(strings.TrimPrefix(line, "WORKER-RESULT "))) == nil {
							merged = true
						}
					}
				}
				mu.Unlock()
				if err == nil && merged {
					return
				}
				// the worker died: which case was it running?
				b, rerr := os.ReadFile(pf)
				if rerr != nil || len(b) < 12 {
					mu.Lock()
					c.Broken(fmt.Sprintf("hostile worker %d died without a progress record: %v %s", i, err, tail(errb.String())))
					mu.Unlock()
					return
				}
				it, off, pat := int(binary.LittleEndian.Uint32(b[0:])), int(binary.LittleEndian.Uint32(b[4:])), int(binary.LittleEndian.Uint32(b[8:]))
				reason := "the process died"
				if strings.Contains(errb.String(), "out of memory") {
					reason = "fatal error: runtime: out of memory (not recoverable)"
				}
				where := firstFrame(errb.String())
				mu.Lock()
				if it < len(items) {
					c.Violation(fmt.Sprintf("C04:fatal:%s", items[it].kind), fmt.Sprintf("%s (%s): a hostile overwrite at offset %d (pattern #%d) kills the decoding process: %s at %s", items[it].kind, items[it].desc, off, pat, reason, where),
						map[string]interface{}{"engine": "E4", "kind": items[it].kind, "encoding": fmt.Sprintf("%x", clip(items[it].bytes)), "offset": off, "pattern_no": pat, "where": where})
				}
				c.Count("worker_restarts_after_fatal_error", 1)
				mu.Unlock()
				resume = fmt.Sprintf("%d,%d,%d", it, off, pat)
			}
			mu.Lock()
			c.NotExhaustive(fmt.Sprintf("hostile worker %d was restarted 400 times; the remainder of its share was not run", i))
			mu.Unlock()
		}(i)
	}
	wg.Wait()
}

func tail(s string) string {
	if len(s) > 600 {
		return s[len(s)-600:]
	}
	return s
}

// firstFrame extracts the first golib frame of a fatal-error stack dump.
func firstFrame(stderr string) string {
	for _, l := range strings.Split(stderr, "\n") {
		if strings.Contains(l, "github.com/whatap/golib/") && !strings.Contains(l, "verifshim") {
			l = strings.TrimSpace(l)
			if i := strings.Index(l, "("); i > 0 {
				l = l[:i]
			}
			return strings.TrimPrefix(l, "github.com/whatap/golib/")
		}
	}
	return "unknown frame"
}

func clip(b []byte) []byte {
	if len(b) > 96 {
		return b[:96]
	}
	return b
}

func Run(c *evid.Ctx) {
	items := corpus(c.Thorough())
	sort.SliceStable(items, func(i, j int) bool { return items[i].kind < items[j].kind })
	for i := range items {
		items[i].idx = i
	}
	maxOff := 48
	if c.Thorough() {
		maxOff = 0
	}
	if w := shard.Worker(); w != nil {
		// hostile pass: one representative subset in the quick tier
		sub := items
		if !c.Thorough() {
			// quick: per kind, the longest encoding of at most 1 KiB with every offset overwritten
			// (the all-typical object reaches the count fields deep inside), plus two more at the
			// first offsets
			sub = nil
			longest := map[string]int{}
			for i, it := range items {
				if len(it.bytes) <= 1024 {
					if j, ok := longest[it.kind]; !ok || len(it.bytes) > len(items[j].bytes) {
						longest[it.kind] = i
					}
				}
			}
			per := map[string]int{}
			for i, it := range items {
				if j, ok := longest[it.kind]; ok && j == i {
					it.allOffsets = true
					sub = append(sub, it)
				} else if per[it.kind] < 2 {
					per[it.kind]++
					sub = append(sub, it)
				}
			}
		}
		hostile(c, sub, w, maxOff)
		return
	}
	kinds := map[string]bool{}
	for _, it := range items {
		kinds[it.kind] = true
	}
	c.Cov["corpus_encodings"] = len(items)
	c.Cov["corpus_kinds"] = len(kinds)
	truncation(c, items)
	netTruncation(c, items)
	primitives(c)
	unknownTags(c)
	spawnHostile(c, items, 16)
	c.Count("distinct_nontrivial", c.Counter("evaluations"))
	c.Cov["rule"] = "truncation: one evaluation = one strict prefix of one distinct valid encoding (values, all pack types with every single-slot deviation, steps, transaction/service records, UDP packs per family) decoded through the public entry point; the outcome must be a recovered panic; hostile: one evaluation = one encoding with a 1/2/4/5-byte window overwritten by a hostile pattern, decoded in a single-threaded worker with the bytes allocated during the decode measured by runtime/metrics and bounded by 64*len+1MiB"
	c.Sample(map[string]interface{}{"kind": items[0].kind, "desc": items[0].desc, "bytes": fmt.Sprintf("%x", clip(items[0].bytes))})
	c.Sample(map[string]interface{}{"kind": items[len(items)/2].kind, "desc": items[len(items)/2].desc, "bytes": fmt.Sprintf("%x", clip(items[len(items)/2].bytes))})
	c.Assume("the allocation bound tolerates 1 MiB of slack: a 16-bit count can pre-allocate a few hundred KiB, which is bounded by the width of the field; what is flagged is allocation driven by 24/32/64-bit counts")
	c.Assume("in-process hostile lengths stop at the 16 Mi scale (a 2 GiB make costs seconds once spans are recycled); 2^31-scale lengths reach ReadBytes only, which now checks the request against the buffered input before allocating")
	if !c.Thorough() {
		c.NotExhaustive("quick tier: hostile overwrites at every offset of the longest (<= 1 KiB) encoding of each kind and at offsets < 48 of two more; the thorough tier overwrites every offset of every corpus encoding")
	}
}
