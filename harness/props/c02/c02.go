// Package c02 decides C02: the tagged value codec round-trips every value type nested to any depth
// and emits exactly the reference encoding (E3: all terms up to a depth/width bound over the scalar
// alphabets, plus container shape cases).
package c02

import (
	"bytes"
	"fmt"
	"math"
	"sync"
	"sync/atomic"

	"verif/engine/evid"
	"verif/props/coll"
	"verif/props/packs"
	"verif/props/vals"
	"verif/refenc"

	gio "github.com/whatap/golib/io"
	"github.com/whatap/golib/lang/value"
)

func typeName(t byte) string { return fmt.Sprintf("type%d", t) }

// CheckOne runs the codec oracle on one value; returns (key suffix, message) or "".
func CheckOne(s *vals.Spec) (key, msg string) {
	defer func() {
		if r := recover(); r != nil {
			key, msg = typeName(s.T)+":panic", fmt.Sprintf("%s: panic: %v", s.String(), r)
		}
	}()
	v := vals.Build(s)
	out := gio.NewDataOutputX()
	value.WriteValue(out, v)
	got := out.ToByteArray()
	var ref refenc.B
	vals.Ref(&ref, s)
	if !bytes.Equal(got, ref) {
		return typeName(s.T) + ":bytes", fmt.Sprintf("%s: encoded %x…, reference %x… (lengths %d/%d, first difference at %d)", s.String(), clip(got), clip(ref), len(got), len(ref), firstDiff(got, ref))
	}
	in := gio.NewDataInputX(append([]byte{}, got...))
	dec := value.ReadValue(in)
	if in.Available() != 0 {
		return typeName(s.T) + ":consumed", fmt.Sprintf("%s: decoding left %d of %d bytes", s.String(), in.Available(), len(got))
	}
	if m := vals.Same(s, dec, "$"); m != "" {
		return typeName(s.T) + ":decoded", fmt.Sprintf("%s: decoded value differs: %s", s.String(), m)
	}
	out2 := gio.NewDataOutputX()
	value.WriteValue(out2, dec)
	if !bytes.Equal(out2.ToByteArray(), got) {
		return typeName(s.T) + ":reencode", fmt.Sprintf("%s: re-encoding the decoded value gives different bytes", s.String())
	}
	// the typed helpers the packs use for their tag and attribute maps must agree with the generic pair
	if mv, ok := v.(*value.MapValue); ok {
		out3 := gio.NewDataOutputX()
		value.WriteMapValue(out3, mv)
		if !bytes.Equal(out3.ToByteArray(), ref) {
			return typeName(s.T) + ":WriteMapValue", fmt.Sprintf("%s: WriteMapValue emitted %x…, the reference encoding is %x…", s.String(), clip(out3.ToByteArray()), clip(ref))
		}
		in3 := gio.NewDataInputX(append([]byte{}, ref...))
		dm := value.ReadMapValue(in3)
		if dm == nil || in3.Available() != 0 {
			return typeName(s.T) + ":ReadMapValue", fmt.Sprintf("%s: ReadMapValue returned %v with %d bytes left", s.String(), dm, in3.Available())
		}
		if m := vals.Same(s, dm, "$"); m != "" {
			return typeName(s.T) + ":ReadMapValue", fmt.Sprintf("%s: ReadMapValue gives a different map: %s", s.String(), m)
		}
	}
	// a container that is reused - filled, cleared, filled again with the same entries - encodes
	// like a fresh one (what Clear() leaves behind must not shadow the entries put afterwards)
	if s.T == vals.TList || s.T == vals.TMap || s.T == vals.TIMap {
		fill := func(c value.Value) {
			switch x := c.(type) {
			case *value.ListValue:
				for _, it := range s.Items {
					x.Add(vals.Build(it))
				}
			case *value.MapValue:
				for i, k := range s.Keys {
					x.Put(k, vals.Build(s.Items[i]))
				}
			case *value.IntMapValue:
				for i, k := range s.IKeys {
					x.Put(k, vals.Build(s.Items[i]))
				}
			}
		}
		switch x := v.(type) {
		case *value.ListValue:
			x.Clear()
		case *value.MapValue:
			x.Clear()
		case *value.IntMapValue:
			x.Clear()
		}
		fill(v)
		out4 := gio.NewDataOutputX()
		value.WriteValue(out4, v)
		if !bytes.Equal(out4.ToByteArray(), ref) {
			return typeName(s.T) + ":reused-after-Clear", fmt.Sprintf("%s: filled, cleared and filled again with the same entries it encodes to %x…, a fresh one to %x… (lengths %d/%d)", s.String(), clip(out4.ToByteArray()), clip(ref), len(out4.ToByteArray()), len(ref))
		}
		if m := vals.Same(s, v, "$"); m != "" {
			return typeName(s.T) + ":reused-after-Clear", fmt.Sprintf("%s: filled, cleared and filled again it differs from what was put: %s", s.String(), m)
		}
	}
	return "", ""
}

func clip(b []byte) []byte {
	if len(b) > 24 {
		return b[:24]
	}
	return b
}
func firstDiff(a, b []byte) int {
	for i := 0; i < len(a) && i < len(b); i++ {
		if a[i] != b[i] {
			return i
		}
	}
	if len(a) < len(b) {
		return len(a)
	}
	return len(b)
}

// containers over an element set, width <= w
func containers(elems []*vals.Spec, w int, f func(s *vals.Spec)) {
	// the empty string and 0 are the values an exhausted key enumeration yields: they are legal keys and
	// appear first and second
	keys := []string{"k", "", "k2", "k3"}
	ikeys := []int32{7, 0, -1, math.MinInt32}
	keysB := []string{"", "k", "k2", "k3"}
	ikeysB := []int32{0, 7, -1, math.MinInt32}
	var rec func(items []*vals.Spec)
	rec = func(items []*vals.Spec) {
		n := len(items)
		f(&vals.Spec{T: vals.TList, Items: append([]*vals.Spec{}, items...)})
		f(&vals.Spec{T: vals.TMap, Keys: keys[:n], Items: append([]*vals.Spec{}, items...)})
		f(&vals.Spec{T: vals.TIMap, IKeys: ikeys[:n], Items: append([]*vals.Spec{}, items...)})
		if n > 0 {
			f(&vals.Spec{T: vals.TMap, Keys: keysB[:n], Items: append([]*vals.Spec{}, items...)})
			f(&vals.Spec{T: vals.TIMap, IKeys: ikeysB[:n], Items: append([]*vals.Spec{}, items...)})
		}
		if n == w {
			return
		}
		for _, e := range elems {
			rec(append(items, e))
		}
	}
	rec(nil)
}

func shapes(thorough bool) []*vals.Spec {
	var out []*vals.Spec
	sizes := []int{0, 1, 2, 75, 76, 127, 128, 129, 152, 153}
	if thorough {
		sizes = append(sizes, 32767, 32768)
	}
	ck := coll.StringKeys(false, 6) // collide in bucket 0 of the 101- and 203-bucket tables
	for _, n := range sizes {
		items := make([]*vals.Spec, n)
		keys := make([]string, n)
		ikeys := make([]int32, n)
		special := []int32{0, 101 * 203, -101 * 203, math.MinInt32, math.MaxInt32}
		for i := 0; i < n; i++ {
			items[i] = &vals.Spec{T: vals.TDec, I: int64(i)}
			if i < len(ck) {
				keys[i] = ck[i]
			} else {
				keys[i] = fmt.Sprintf("key%05d", i)
			}
			if i < len(special) {
				ikeys[i] = special[i]
			} else {
				ikeys[i] = int32(i*101 + 1) // never one of the special keys above (203*101 = 20503 is one)
			}
		}
		out = append(out, &vals.Spec{T: vals.TList, Items: items}, &vals.Spec{T: vals.TMap, Keys: keys, Items: items}, &vals.Spec{T: vals.TIMap, IKeys: ikeys, Items: items})
	}
	// nesting chains of depth 64, one per container kind and a mixed one
	for kind := 0; kind < 4; kind++ {
		cur := &vals.Spec{T: vals.TText, S: "leaf"}
		for d := 0; d < 64; d++ {
			k := kind
			if kind == 3 {
				k = d % 3
			}
			switch k {
			case 0:
				cur = vals.List(cur)
			case 1:
				cur = vals.Map([]string{"n"}, cur)
			default:
				cur = vals.IMap([]int32{int32(d)}, cur)
			}
		}
		out = append(out, cur)
	}
	return out
}

func Run(c *evid.Ctx) {
	// type-code discovery: the creatable codes must be exactly the documented 20 (+ none else)
	var creatable []byte
	for code := 0; code < 256; code++ {
		func() {
			defer func() { recover() }()
			if v := value.CreateValue(byte(code)); v != nil {
				if v.GetValueType() != byte(code) {
					c.Violation("C02:CreateValue:code", fmt.Sprintf("CreateValue(%d) returns a value of type %d", code, v.GetValueType()), nil)
				}
				creatable = append(creatable, byte(code))
			}
		}()
	}
	if !bytes.Equal(creatable, vals.AllTypes) {
		c.Violation("C02:CreateValue:set", fmt.Sprintf("creatable type codes %v differ from the documented set %v", creatable, vals.AllTypes), nil)
	}
	c.Cov["type_codes_discovered"] = len(creatable)

	var evals, nontriv int64
	var mu sync.Mutex
	seen := map[string]bool{}
	run := func(s *vals.Spec) {
		atomic.AddInt64(&evals, 1)
		if s.T != vals.TNull {
			atomic.AddInt64(&nontriv, 1)
		}
		if k, m := CheckOne(s); k != "" {
			mu.Lock()
			if !seen[k] {
				seen[k] = true
				c.Violation("C02:"+k, m, map[string]interface{}{"engine": "E3", "value": s.String()})
			}
			mu.Unlock()
		}
	}
	full := vals.Scalars(2)
	for _, s := range full {
		run(s)
	}
	// interference between two uses of the value codec: every ordered pair of the level-1 scalars
	l1 := vals.Scalars(1)
	for _, sa := range l1 {
		for _, sb := range l1 {
			atomic.AddInt64(&evals, 1)
			packs.Interference(c, "C02", typeName(byte(sa.T)), vals.Build(sa), vals.Build(sb),
				func(o interface{}) []byte {
					out := gio.NewDataOutputX()
					value.WriteValue(out, o.(value.Value))
					return out.ToByteArray()
				},
				func(bs []byte) interface{} { return value.ReadValue(gio.NewDataInputX(bs)) })
		}
	}
	small := vals.Scalars(1)
	reps := vals.Scalars(0)
	// depth 1: every container of width <= 2 over the level-1 scalar alphabet (every element-type mix)
	w1 := 2
	var sampleD1, sampleD2 *vals.Spec
	nD1 := 0
	parallelGen(func(emit func(*vals.Spec)) {
		containers(small, w1, func(s *vals.Spec) {
			nD1++
			if nD1 == 5000 {
				sampleD1 = s
			}
			emit(s)
		})
	}, run)
	for _, s := range full { // singleton containers over the full alphabet (long payloads inside containers)
		run(vals.List(s))
		run(vals.Map([]string{"k"}, s))
		run(vals.IMap([]int32{3}, s))
	}
	// depth 2: containers of width <= 2 whose elements are representatives or depth-1 containers over representatives
	var inner []*vals.Spec
	inner = append(inner, reps...)
	containers(reps, 2, func(s *vals.Spec) { inner = append(inner, s) })
	nD2 := 0
	parallelGen(func(emit func(*vals.Spec)) {
		containers(inner, 2, func(s *vals.Spec) {
			nD2++
			if nD2 == 5000 {
				sampleD2 = s
			}
			emit(s)
		})
	}, run)
	depthDone := 2
	if c.Thorough() {
		// depth 3 over a reduced inner set: width <= 2 of (representatives + depth-2 singletons)
		var in3 []*vals.Spec
		in3 = append(in3, reps[:6]...)
		containers(reps[:6], 1, func(s *vals.Spec) { in3 = append(in3, s) })
		// (width 2 here made the depth-3 level 220 M terms and 47 minutes; singletons keep every
		// nesting of three container kinds over every representative, 0.3 M terms)
		var mid []*vals.Spec
		containers(in3, 1, func(s *vals.Spec) { mid = append(mid, s) })
		parallelGen(func(emit func(*vals.Spec)) {
			containers(append(append([]*vals.Spec{}, reps[:4]...), mid...), 2, emit)
		}, run)
		// width 3 at depth 1
		parallelGen(func(emit func(*vals.Spec)) { containers(reps, 3, emit) }, run)
		depthDone = 3
	}
	sh := shapes(c.Thorough())
	parallel(sh, run)
	c.Count("evaluations", evals)
	c.Count("distinct_nontrivial", nontriv)
	c.Cov["depth_completed"] = depthDone
	c.Cov["rule"] = "one evaluation = one value term built through golib's constructors, encoded with WriteValue and compared byte for byte with refenc, decoded with ReadValue and compared structurally (own comparator, order of entries, floats by bits), Available()==0, re-encoded; terms are enumerated without repetition; non-trivial = any value other than null"
	if sampleD1 != nil {
		c.Sample(sampleD1.String())
	}
	if sampleD2 != nil {
		c.Sample(sampleD2.String())
	}
	c.Sample(sh[4].String())
	c.Assume("scalar payloads come from boundary alphabets; containers are all terms up to the stated depth and width over those alphabets plus shape cases (sizes around table growth and the decimal count classes, colliding keys, nesting depth 64)")
}

// parallelGen streams the specs a generator emits to 16 workers (nothing is materialised: the
// thorough tier's term sets do not fit in memory).
func parallelGen(gen func(emit func(*vals.Spec)), f func(*vals.Spec)) {
	var wg sync.WaitGroup
	ch := make(chan *vals.Spec, 1024)
	for i := 0; i < 16; i++ {
		wg.Add(1)
		go func() {
			defer wg.Done()
			for s := range ch {
				f(s)
			}
		}()
	}
	gen(func(s *vals.Spec) { ch <- s })
	close(ch)
	wg.Wait()
}

func parallel(specs []*vals.Spec, f func(*vals.Spec)) {
	var wg sync.WaitGroup
	nw := 16
	ch := make(chan *vals.Spec, 1024)
	for i := 0; i < nw; i++ {
		wg.Add(1)
		go func() {
			defer wg.Done()
			for s := range ch {
				f(s)
			}
		}()
	}
	for _, s := range specs {
		ch <- s
	}
	close(ch)
	wg.Wait()
}
