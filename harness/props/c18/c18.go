// Package c18 decides C18: the file configuration tracks the file, notifies observers and writes back
// safely — explicit-state search over external edit / clock / reload histories on a real scratch
// file (E2), exhaustive products for the typed getters and the write-back, and enumeration of every
// prefix and tear point of the write-back's file-operation log (E4).
package c18

import (
	"fmt"
	"os"
	"path/filepath"
	"sort"
	"strconv"
	"strings"
	"time"

	"verif/engine/evid"
	"verif/engine/shard"

	"github.com/magiconair/properties"
	"github.com/whatap/golib/config"
	"github.com/whatap/golib/config/conffile"
	"github.com/whatap/golib/util/hash"
	"github.com/whatap/golib/verifshim/vos"
	"github.com/whatap/golib/verifshim/vrt"
	"github.com/whatap/golib/verifshim/vtime"
)

var t0 = time.Date(2024, 3, 10, 12, 0, 0, 0, time.UTC)

type env struct {
	dir  string
	path string
}

func newEnv(c *evid.Ctx) *env {
	dir, err := os.MkdirTemp(filepath.Join(evid.Root, ".build"), "c18-")
	if err != nil {
		c.Broken("cannot create scratch directory: " + err.Error())
		return nil
	}
	os.Unsetenv("WHATAP_HOME")
	os.Unsetenv("WHATAP_CONFIG_HOME")
	os.Unsetenv("WHATAP_CONFIG")
	return &env{dir: dir, path: filepath.Join(dir, "whatap.conf")}
}

func (e *env) write(content string, mtime time.Time) {
	os.WriteFile(e.path, []byte(content), 0o644)
	os.Chtimes(e.path, mtime, mtime)
}

type observer struct {
	calls int
	last  string
}

func (o *observer) ApplyConfig(c config.Config) {
	o.calls++
	o.last = c.GetValue("k1") + "|" + c.GetValue("k2")
}

// observers: every registration history of length <= 3 over two names and three observer objects
// (registering again under a name that is taken is what a re-created client does), then one edit and
// one reload: the observer last registered under each name must have been notified of that change.
func observers(c *evid.Ctx) {
	e := newEnv(c)
	if e == nil {
		return
	}
	defer os.RemoveAll(e.dir)
	type reg struct {
		name string
		obj  int
	}
	alphabet := []reg{{"client", 0}, {"client", 1}, {"sender", 2}, {"client", 2}}
	var rec func(h []reg)
	rec = func(h []reg) {
		if len(h) > 0 {
			c.Count("observer_histories", 1)
			c.Count("states", 1)
			vtime.SetVirtual(t0)
			mt := t0.Add(-time.Hour)
			e.write("k1=init\n", mt)
			objs := []*observer{{}, {}, {}}
			co := config.NewConfigObserver()
			last := map[string]int{}
			var desc []string
			for _, r := range h {
				co.Add(r.name, objs[r.obj])
				last[r.name] = r.obj
				desc = append(desc, fmt.Sprintf("Add(%q, observer%d)", r.name, r.obj))
			}
			fc := conffile.VerifNew(conffile.WithHomePath(e.dir), conffile.WithConfigObserver(co))
			before := []int{objs[0].calls, objs[1].calls, objs[2].calls}
			e.write("k1=changed\n", mt.Add(5*time.Second))
			vtime.Advance(3100 * time.Millisecond)
			fc.VerifReload()
			for name, oi := range last {
				if objs[oi].calls == before[oi] || !strings.HasPrefix(objs[oi].last, "changed|") {
					c.Violation("C18:observer:not-notified", fmt.Sprintf("after %v, an edit and a reload: observer%d, the one registered last under %q, was not notified of the change (calls %d -> %d, last saw %q)", desc, oi, name, before[oi], objs[oi].calls, objs[oi].last),
						map[string]interface{}{"engine": "E2", "history": desc})
					return
				}
			}
		}
		if len(h) == 3 {
			return
		}
		for _, r := range alphabet {
			rec(append(append([]reg{}, h...), r))
		}
	}
	rec(nil)
}

func parseProps(content string) map[string]string {
	p, err := properties.LoadString(content)
	m := map[string]string{}
	if err != nil {
		return m
	}
	for _, k := range p.Keys() {
		if v := p.GetString(k, ""); v != "" {
			m[k] = v
		}
	}
	return m
}

// ---- tracking: edit / clock / reload histories ------------------------------------------------------------

type event struct {
	kind    string // edit | clock | tick
	content string
	dt      time.Duration // edit: offset of the new mtime from the previous mtime
}

func (e event) String() string {
	switch e.kind {
	case "edit":
		if e.dt < 0 {
			return fmt.Sprintf("edit(%q, mtime%v)", e.content, e.dt)
		}
		return fmt.Sprintf("edit(%q, mtime+%v)", e.content, e.dt)
	case "clock":
		return "clock+3s"
	case "delete":
		return "delete-file"
	}
	return "reload"
}

func tracking(c *evid.Ctx, depth int) {
	e := newEnv(c)
	if e == nil {
		return
	}
	defer os.RemoveAll(e.dir)
	contents := []string{"k1=a\n", "k1=b\n", "k1=a\nk2=x\n", "# only a comment\n", "k2 = y\nk1=c"}
	var events []event
	for _, ct := range contents {
		for _, dt := range []time.Duration{time.Millisecond, 500 * time.Millisecond, time.Second, 4 * time.Second, -30 * time.Minute} { // the last: a file restored or moved into place with an OLDER modification time
			events = append(events, event{"edit", ct, dt})
		}
	}
	events = append(events, event{kind: "clock"}, event{kind: "tick"}, event{kind: "delete"})
	hist := make([]int, depth)
	var rec func(pos, l int)
	run := func(h []int) {
		c.Count("states", 1)
		c.Count("transitions", int64(len(h)))
		vtime.SetVirtual(t0)
		mt := t0.Add(-time.Hour)
		e.write("k1=init\n", mt)
		obs := &observer{}
		co := config.NewConfigObserver()
		co.Add("obs", obs)
		fc := conffile.VerifNew(conffile.WithHomePath(e.dir), conffile.WithConfigObserver(co))
		content := "k1=init\n"
		deleted := false
		var desc []string
		for _, ei := range h {
			ev := events[ei]
			desc = append(desc, ev.String())
			switch ev.kind {
			case "edit":
				mt = mt.Add(ev.dt)
				content = ev.content
				e.write(content, mt)
			case "clock":
				vtime.Advance(3 * time.Second)
			case "tick":
				fc.VerifReload()
			case "delete":
				os.Remove(e.path)
				content = ""
				deleted = true
			}
			if ev.kind == "edit" {
				deleted = false
			}
		}
		// the file stops changing: two more poll periods
		for i := 0; i < 2; i++ {
			vtime.Advance(3100 * time.Millisecond)
			fc.VerifReload()
		}
		want := parseProps(content)
		if deleted {
			// the file is gone: the configuration falls back to its defaults; nothing of the old file may
			// linger as if it were still configured
			if got := fc.GetValue("k1"); got != "" {
				c.Violation("C18:tracking:deleted-file-lingers", fmt.Sprintf("after %v and two further polls the file does not exist but the configuration still returns k1=%q", desc, got), map[string]interface{}{"engine": "E2", "history": desc})
			}
			return
		}
		for k, v := range want {
			if got := fc.GetValue(k); got != strings.TrimSpace(v) {
				c.Violation("C18:tracking:stale", fmt.Sprintf("after %v and two further polls the file says %s=%q but the configuration returns %q (file mtime %s: the content on disk was never loaded)", desc, k, v, got, mt.Format("15:04:05.000")),
					map[string]interface{}{"engine": "E2", "history": desc, "file": content, "key": k, "got": got})
				return
			}
		}
		if obs.calls == 0 {
			c.Violation("C18:tracking:observer", fmt.Sprintf("after %v the registered observer was never notified", desc), nil)
			return
		}
		if len(want) > 0 {
			exp := fc.GetValue("k1") + "|" + fc.GetValue("k2")
			if obs.last != exp {
				c.Violation("C18:tracking:observer-stale", fmt.Sprintf("after %v the observer last saw %q but the configuration now holds %q: a loaded change was not followed by a notification", desc, obs.last, exp), nil)
			}
		}
	}
	rec = func(pos, l int) {
		if pos == l {
			run(hist[:l])
			return
		}
		for i := range events {
			hist[pos] = i
			rec(pos+1, l)
		}
	}
	for l := 0; l <= depth; l++ {
		rec(0, l)
	}
}

// editDuringReload: an external edit does not wait for the poller. The parser is the library's own,
// wrapped so that a second edit lands at a chosen point INSIDE one reload - between the stat that
// noticed the first edit and the read, or right after the read - with a newer modification time
// (1 ms .. 4 s). Once the file is quiet, two further polls must have loaded what is on disk and
// notified the observer.
type hookParser struct {
	inner                 conffile.FileParser
	beforeRead, afterRead func()
}

func (h *hookParser) Read(p string) (map[string]string, error) {
	if h.beforeRead != nil {
		f := h.beforeRead
		h.beforeRead = nil
		f()
	}
	m, err := h.inner.Read(p)
	if h.afterRead != nil {
		f := h.afterRead
		h.afterRead = nil
		f()
	}
	return m, err
}
func (h *hookParser) Write(p string, m *map[string]string) error { return h.inner.Write(p, m) }

func editDuringReload(c *evid.Ctx) {
	e := newEnv(c)
	if e == nil {
		return
	}
	defer os.RemoveAll(e.dir)
	for _, point := range []string{"before-read", "after-read"} {
		for _, dt := range []time.Duration{time.Millisecond, time.Second, 4 * time.Second} {
			for _, second := range []string{"k1=c\n", "k1=c\nk2=new\n", "k2=only\n"} {
				c.Count("states", 1)
				c.Count("evaluations", 1)
				vtime.SetVirtual(t0)
				mt := t0.Add(-time.Hour)
				e.write("k1=init\n", mt)
				obs := &observer{}
				co := config.NewConfigObserver()
				co.Add("obs", obs)
				hp := &hookParser{inner: conffile.NewDefaultFileParser()}
				fc := conffile.VerifNew(conffile.WithHomePath(e.dir), conffile.WithConfigObserver(co), conffile.WithParser(hp))
				// first edit, noticed by the next poll
				mt = mt.Add(time.Second)
				e.write("k1=b\n", mt)
				mt2 := mt.Add(dt)
				edit2 := func() { e.write(second, mt2) }
				if point == "before-read" {
					hp.beforeRead = edit2
				} else {
					hp.afterRead = edit2
				}
				vtime.Advance(3100 * time.Millisecond)
				fc.VerifReload()
				if hp.beforeRead != nil || hp.afterRead != nil {
					c.Info("editDuringReload: the reload did not go through the parser (point %s)", point)
					continue
				}
				for i := 0; i < 2; i++ {
					vtime.Advance(3100 * time.Millisecond)
					fc.VerifReload()
				}
				desc := fmt.Sprintf("edit to \"k1=b\", poll; a second edit to %q (mtime +%v) lands %s of that reload; two further polls", second, dt, map[string]string{"before-read": "between the stat and the read", "after-read": "right after the read"}[point])
				for k, v := range parseProps(second) {
					if got := fc.GetValue(k); got != strings.TrimSpace(v) {
						c.Violation("C18:tracking:edit-during-reload", fmt.Sprintf("%s: the quiescent file says %s=%q but the configuration returns %q", desc, k, v, got), map[string]interface{}{"engine": "E2", "history": desc})
						break
					}
				}
				// (a key that is no longer in the file keeps its last value: the property speaks about the
				// keys that ARE in the file)
				if exp := fc.GetValue("k1") + "|" + fc.GetValue("k2"); obs.last != exp {
					c.Violation("C18:tracking:observer-stale", fmt.Sprintf("%s: the observer last saw %q, the configuration holds %q", desc, obs.last, exp), nil)
				}
			}
		}
	}
}

// ---- typed getters ------------------------------------------------------------------------------------------

func getters(c *evid.Ctx) {
	e := newEnv(c)
	if e == nil {
		return
	}
	defer os.RemoveAll(e.dir)
	values := []string{"", "true", "TRUE", "1", "x", "12", "-1", "2147483648", "1.5", "1e3", " 7 ", "a,b", "1, 2,x", "0", "false", "9223372036854775807",
		// the borders of every numeric domain, just inside and just outside
		"2147483647", "-2147483648", "-2147483649", "9223372036854775808", "-9223372036854775808", "-9223372036854775809",
		"3.4028235e38", "-3.4028235e38", "3.5e38", "-4e38", "1e39", "1e308", "1e400", "1e-50", "+5", "-0", "1_000", "0x10", "12abc", "Inf"}
	var sb strings.Builder
	for i, v := range values {
		fmt.Fprintf(&sb, "key%d=%s\n", i, v)
	}
	vtime.SetVirtual(t0)
	e.write(sb.String(), t0.Add(-time.Hour))
	fc := conffile.VerifNew(conffile.WithHomePath(e.dir))
	bad := func(name, key, val string, got, want interface{}) {
		c.Violation("C18:getter:"+name, fmt.Sprintf("%s(%s) with file value %q returned %v, the documented parse-or-default result is %v", name, key, val, got, want), map[string]interface{}{"getter": name, "value": val})
	}
	for i, raw := range values {
		c.Count("evaluations", 7)
		key := fmt.Sprintf("key%d", i)
		v := strings.TrimSpace(raw)
		// booleans
		for _, def := range []bool{true, false} {
			want := def
			if b, err := strconv.ParseBool(v); err == nil && v != "" {
				want = b
			}
			if got := fc.GetBoolean(key, def); got != want {
				bad("GetBoolean", key, raw, got, want)
			}
		}
		wantI := int32(-77)
		if n, err := strconv.ParseInt(v, 10, 32); err == nil && v != "" {
			wantI = int32(n)
		}
		if got := fc.GetInt(key, -77); got != wantI {
			bad("GetInt", key, raw, got, wantI)
		}
		wantL := int64(-77)
		if n, err := strconv.ParseInt(v, 10, 64); err == nil && v != "" {
			wantL = n
		}
		if got := fc.GetLong(key, -77); got != wantL {
			bad("GetLong", key, raw, got, wantL)
		}
		wantF := float32(-7.5)
		if f, err := strconv.ParseFloat(v, 32); err == nil && v != "" {
			wantF = float32(f)
		}
		if got := fc.GetFloat(key, -7.5); got != wantF {
			bad("GetFloat", key, raw, got, wantF)
		}
		// lists: comma separated, trimmed
		src := v
		if src == "" {
			src = "d1,d2"
		}
		var toks []string
		for _, t := range strings.FieldsFunc(src, func(r rune) bool { return r == ',' }) {
			toks = append(toks, strings.TrimSpace(t))
		}
		if got := fc.GetStringArray(key, "d1,d2", ","); strings.Join(got, "|") != strings.Join(toks, "|") {
			bad("GetStringArray", key, raw, got, toks)
		}
		var wantSet []int32
		srcI := v
		if srcI == "" {
			srcI = "5,6"
		}
		for _, t := range strings.FieldsFunc(srcI, func(r rune) bool { return r == ',' }) {
			if n, err := strconv.Atoi(strings.TrimSpace(t)); err == nil {
				wantSet = append(wantSet, int32(n))
			}
		}
		if got := fc.GetIntSet(key, "5,6", ","); fmt.Sprint(got) != fmt.Sprint(append([]int32{}, wantSet...)) {
			bad("GetIntSet", key, raw, got, wantSet)
		}
		var wantH []int32
		for _, t := range toks {
			wantH = append(wantH, hash.HashStr(t))
		}
		if got := fc.GetStringHashSet(key, "d1,d2", ","); fmt.Sprint(got) != fmt.Sprint(append([]int32{}, wantH...)) {
			bad("GetStringHashSet", key, raw, got, wantH)
		}
	}
	// absent key: defaults
	if fc.GetInt("absent", 9) != 9 || fc.GetBoolean("absent", true) != true || fc.GetValueDef("absent", "d") != "d" || fc.GetLong("absent", 8) != 8 {
		c.Violation("C18:getter:absent", "an absent key does not fall back to the supplied default", nil)
	}
}

// ---- write-back -----------------------------------------------------------------------------------------------

func writeBack(c *evid.Ctx) {
	e := newEnv(c)
	if e == nil {
		return
	}
	defer os.RemoveAll(e.dir)
	files := []string{
		"a=1\nb=2\n",
		"# comment\na=1\n\nb = 2\n",
		"# note: c=1=2\na=1\n",
		"a=1\nb=2\nlast=3",
		"a=1\na=2\n",
		"#only\n",
	}
	// every shape of a comment line (column 0 / indented with blanks or a tab; without "=", with one,
	// with several, with an empty right-hand side) before, between and after the key lines
	for _, cl := range []string{"#c", "# c = 1", "#k=", "#a=b=c", "  # ind", "  # ind = v", "  #k=", "  #a=b=c", "\t#tab=1", "   #a=1"} {
		files = append(files, cl+"\na=1\n", "a=1\n"+cl+"\nb=2\n", "a=1\n"+cl)
	}
	maps := []map[string]string{
		{"n": "new"}, {"a": "changed"}, {"a": ""}, {"n": `back\slash`}, {"n": `two\\slashes`}, {"n": "x=y"}, {"n": "has#hash"}, {"n": "k:v"}, {"n": " lead"}, {"n": "trail "}, {"n": "한글"},
		{"a": "A", "n": "N"},
	}
	type opt struct {
		name string
		opts []conffile.FileConfigOption
		key  func(k string) string
	}
	optsets := []opt{
		{"plain", nil, func(k string) string { return k }},
		{"prefix", []conffile.FileConfigOption{conffile.WithPrefix("whatap.")}, func(k string) string { return "whatap." + k }},
		{"suffix", []conffile.FileConfigOption{conffile.WithSuffix(".s")}, func(k string) string { return k + ".s" }},
		{"exclude-n", []conffile.FileConfigOption{conffile.WithExcludeKeys([]string{"n"})}, func(k string) string { return k }},
	}
	for _, os_ := range optsets {
		for _, f := range files {
			for _, m := range maps {
				c.Count("evaluations", 1)
				c.Count("writeback_cases", 1)
				vtime.SetVirtual(t0)
				e.write(f, t0.Add(-time.Hour))
				fc := conffile.VerifNew(append([]conffile.FileConfigOption{conffile.WithHomePath(e.dir)}, os_.opts...)...)
				before := parseProps(f)
				mm := map[string]string{}
				for k, v := range m {
					mm[k] = v
				}
				desc := fmt.Sprintf("file %q, SetValues(%v), options %s", f, m, os_.name)
				var perr interface{}
				func() {
					defer func() { perr = recover() }()
					fc.SetValues(&mm)
				}()
				if perr != nil {
					c.Violation("C18:writeback:panic", fmt.Sprintf("%s: %v", desc, perr), nil)
					continue
				}
				nb, _ := os.ReadFile(e.path)
				after := parseProps(string(nb))
				want := map[string]string{}
				for k, v := range before {
					want[k] = v
				}
				for k, v := range m {
					if os_.name == "exclude-n" && k == "n" {
						continue
					}
					kk := os_.key(k)
					if strings.TrimSpace(v) == "" {
						delete(want, kk)
					} else {
						want[kk] = v
					}
				}
				var keys []string
				for k := range want {
					keys = append(keys, k)
				}
				sort.Strings(keys)
				mismatch := false
				for _, k := range keys {
					if after[k] != want[k] {
						cls := "other-key"
						if _, written := m[strings.TrimSuffix(strings.TrimPrefix(k, "whatap."), ".s")]; written {
							cls = "written-value:" + valueClass(want[k])
						}
						c.Violation("C18:writeback:"+cls, fmt.Sprintf("%s: after the write-back key %s reads %q, expected %q (new file %q)", desc, k, after[k], want[k], string(nb)), map[string]interface{}{"file": f, "set": m, "options": os_.name, "new_file": string(nb)})
						mismatch = true
						break
					}
				}
				if !mismatch {
					for k := range after {
						if _, ok := want[k]; !ok {
							c.Violation("C18:writeback:extra-key", fmt.Sprintf("%s: the new file has an unexpected key %s=%q", desc, k, after[k]), nil)
							break
						}
					}
				}
				// comment lines survive, in order
				var oldC, newC []string
				for _, l := range strings.Split(f, "\n") {
					if strings.HasPrefix(strings.TrimSpace(l), "#") {
						oldC = append(oldC, l)
					}
				}
				for _, l := range strings.Split(string(nb), "\n") {
					if strings.HasPrefix(strings.TrimSpace(l), "#") {
						newC = append(newC, l)
					}
				}
				if strings.Join(oldC, "\n") != strings.Join(newC, "\n") {
					c.Violation("C18:writeback:comment", fmt.Sprintf("%s: comment lines %q became %q", desc, oldC, newC), map[string]interface{}{"file": f, "new_file": string(nb)})
				}
				// relative order of surviving keys
				order := func(s string) []string {
					var ks []string
					for _, l := range strings.Split(s, "\n") {
						if i := strings.Index(l, "="); i > 0 && !strings.HasPrefix(strings.TrimSpace(l), "#") {
							ks = append(ks, strings.TrimSpace(l[:i]))
						}
					}
					return ks
				}
				oo, no := order(f), order(string(nb))
				pos := map[string]int{}
				for i, k := range no {
					if _, ok := pos[k]; !ok {
						pos[k] = i
					}
				}
				last := -1
				for _, k := range oo {
					if p, ok := pos[k]; ok {
						if p < last {
							c.Violation("C18:writeback:order", fmt.Sprintf("%s: the surviving lines changed their relative order (%v -> %v)", desc, oo, no), nil)
							break
						}
						last = p
					}
				}
			}
		}
	}
}

func valueClass(v string) string {
	switch {
	case strings.Contains(v, `\\`):
		return "double-backslash"
	case strings.Contains(v, `\`):
		return "backslash"
	case strings.HasPrefix(v, " "):
		return "leading-space"
	case strings.HasSuffix(v, " "):
		return "trailing-space"
	case strings.Contains(v, "${"):
		return "expansion"
	}
	return "plain"
}

// ---- crash images of the write-back ------------------------------------------------------------------------------

func crashImages(c *evid.Ctx) {
	e := newEnv(c)
	if e == nil {
		return
	}
	defer os.RemoveAll(e.dir)
	old := "# comment\na=1\nb=2\n"
	vtime.SetVirtual(t0)
	e.write(old, t0.Add(-time.Hour))
	fc := conffile.VerifNew(conffile.WithHomePath(e.dir))
	lg := &vos.Log{}
	vos.UseLog(lg)
	m := map[string]string{"a": "changed", "n": "new"}
	fc.SetValues(&m)
	vos.UseLog(nil)
	nb, _ := os.ReadFile(e.path)
	newC := string(nb)
	c.Cov["writeback_file_operations"] = len(lg.Ops)
	// every prefix of the operation log, and for a write every tear point in a boundary set
	image := old
	var kinds []string
	check := func(where, img string) {
		c.Count("evaluations", 1)
		c.Count("crash_images", 1)
		if img != old && img != newC {
			c.Violation("C18:writeback:not-atomic", fmt.Sprintf("%s the file on disk holds %q, which is neither the old (%q) nor the new (%q) complete content: a reader or a crash at that instant sees a truncated configuration", where, img, old, newC),
				map[string]interface{}{"engine": "E4", "operations": kinds, "image": img})
		}
	}
	for _, op := range lg.Ops {
		if op.Path != e.path {
			continue
		}
		kinds = append(kinds, op.Kind)
		switch op.Kind {
		case "open-trunc":
			image = ""
			check("after the truncating open", image)
		case "write":
			base := image
			cuts := map[int]bool{0: true, 1: true, len(op.Data) - 1: true, len(op.Data): true}
			for i, b := range op.Data {
				if b == '\n' {
					cuts[i+1] = true
				}
			}
			var cs []int
			for k := range cuts {
				if k >= 0 && k <= len(op.Data) {
					cs = append(cs, k)
				}
			}
			sort.Ints(cs)
			for _, k := range cs {
				check(fmt.Sprintf("with the write torn after %d of %d bytes", k, len(op.Data)), base+string(op.Data[:k]))
			}
			image = base + string(op.Data)
		default:
			check("after "+op.Kind, image)
		}
	}
}

func Run(c *evid.Ctx) {
	properties.ErrorHandler = properties.PanicHandler // the library default would exit the process
	vrt.Policy = vrt.PolicySuppressed                 // the 3 s polling goroutine is replaced by explicit reload ticks
	defer func() { vrt.Policy = vrt.PolicyReal; vtime.ClearVirtual() }()
	depth := 3
	if c.Thorough() {
		depth = 4
	}
	tracking(c, depth)
	editDuringReload(c)
	observers(c)
	getters(c)
	writeBack(c)
	crashImages(c)
	// getters concurrent with a reload: what a snapshot getter may see (ordinary build, every schedule),
	// and the race mode of E1 in the -race build (race.go)
	tornSnapshots(c)
	shard.SpawnRace(c, 4)
	c.Count("evaluations", c.Counter("states"))
	c.Count("distinct_nontrivial", c.Counter("states")+c.Counter("writeback_cases"))
	c.Cov["traces_validated_against_impl"] = c.Counter("states")
	c.Cov["rule"] = "tracking: states = complete histories (up to the stated length) of external edits with a chosen modification time (+1 ms, +0.5 s, +1 s, +4 s after the previous one), clock advances and reload ticks on a real scratch file, followed by two quiet poll periods, after which every key=value of the file must be visible and the observer up to date; getters: 16 values x 7 getters against strconv parse-or-default; write-back: 6 files x 13 value maps x 4 option sets; crash images: every prefix of the write-back's file-operation log with the write torn at 0, 1, each line end, len-1, len"
	c.Sample(map[string]interface{}{"history": "edit(\"k1=b\\n\", mtime+500ms) reload clock+3s reload", "then": "two quiet polls, GetValue(k1) must be b"})
	c.Sample(map[string]interface{}{"writeback": "file \"# note: c=1=2\\na=1\\n\" SetValues{n: two\\\\slashes}"})
	c.Assume("the clock is virtual (vtime seam) and the 3 s polling loop is replaced by explicit reload ticks through a verif hook; modification times are set with os.Chtimes on a real scratch file")
	c.Assume("distinct edits have distinct modification times at the file system's resolution (two edits with the identical timestamp cannot be told apart by any mtime-based poll)")
	c.Assume("the clause 'getters concurrent with a reload neither crash nor see torn state' is decided in the race mode of the schedule explorer: every schedule of the reload cycle (after an edit or a deletion of the file) against every getter, in a -race build whose detector sees only the library's own synchronisation")
}
