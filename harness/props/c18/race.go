package c18

import (
	"fmt"
	"os"
	"sort"
	"strings"
	"time"

	"verif/engine/dfs"
	"verif/engine/evid"
	"verif/engine/racelog"
	"verif/engine/shard"

	"github.com/magiconair/properties"
	"github.com/whatap/golib/config"
	"github.com/whatap/golib/config/conffile"
	"github.com/whatap/golib/verifshim/sched"
	"github.com/whatap/golib/verifshim/vrt"
	"github.com/whatap/golib/verifshim/vtime"
)

// The clause "getters running concurrently with a reload neither crash nor observe torn state" is
// about the configuration's key/value map, which the reload goroutine updates while getters read it.
// It is decided in the race mode of engine E1 (see shim/sched/race_on.go): every schedule of one
// reloading thread (the polling goroutine's cycle, after an external edit of the file) and one or two
// threads calling getters is run in a -race build whose detector sees only the happens-before edges
// of the library's own synchronisation. Two conflicting accesses of the library that no
// synchronisation orders are exactly what makes a concurrent getter crash ("concurrent map read and
// map write" is fatal in Go) or see a half-applied file.

type raceScen struct {
	name    string
	edit    string // content written to the file before the reload ("" = the file is deleted)
	getters [][]string
}

func raceScens() []raceScen {
	all := []string{"GetValue", "GetValueDef", "GetInt", "GetBoolean", "GetLong", "GetFloat", "GetKeys", "GetStringArray", "GetIntSet", "ToString"}
	var out []raceScen
	for _, g := range all {
		out = append(out, raceScen{"edit|" + g, "k1=b\nk2=2\nk3=new\n", [][]string{{g}}})
		out = append(out, raceScen{"deleted|" + g, "", [][]string{{g}}})
	}
	out = append(out, raceScen{"edit|two-getter-threads", "k1=b\nk2=2\n", [][]string{{"GetValue", "GetInt"}, {"GetKeys"}}})
	return out
}

func callGetter(fc *conffile.FileConfig, g string) {
	defer func() { recover() }() // a panicking getter is judged by the sequential getter check
	switch g {
	case "GetValue":
		fc.GetValue("k1")
	case "GetValueDef":
		fc.GetValueDef("k3", "d")
	case "GetInt":
		fc.GetInt("k2", 0)
	case "GetBoolean":
		fc.GetBoolean("k1", false)
	case "GetLong":
		fc.GetLong("k2", 0)
	case "GetFloat":
		fc.GetFloat("k2", 0)
	case "GetKeys":
		fc.GetKeys()
	case "GetStringArray":
		fc.GetStringArray("k1", "", ",")
	case "GetIntSet":
		fc.GetIntSet("k2", "", ",")
	case "ToString":
		_ = fc.ToString()
	}
}

// RaceWorker runs in the -race build.
func RaceWorker(c *evid.Ctx) {
	if !sched.RaceOn {
		c.Broken("race worker started in a binary built without -race")
		return
	}
	properties.ErrorHandler = properties.PanicHandler
	w := shard.RaceWorker()
	lg, err := racelog.Open()
	if err != nil {
		c.Broken(err.Error())
		return
	}
	e := newEnv(c)
	if e == nil {
		return
	}
	defer os.RemoveAll(e.dir)
	lg.New()
	type found struct {
		rep     racelog.Report
		scen    string
		choices []int
		n       int
	}
	seen := map[string]*found{}
	ignored := map[string]int{}
	for i, s := range raceScens() {
		if i%w.N != w.I {
			continue
		}
		s := s
		var cur *sched.Exec
		var got []racelog.Report
		sc := func(x *sched.Exec) func() string {
			cur = x
			vrt.Filter = func(string) bool { return false } // the polling goroutine is the "reload" thread below
			vtime.Epoch = vtime.DefaultEpoch
			e.write("k1=a\nk2=1\n", vtime.DefaultEpoch.Add(-time.Hour))
			co := config.NewConfigObserver()
			fc := conffile.VerifNew(conffile.WithHomePath(e.dir), conffile.WithConfigObserver(co))
			// the external edit happens before the threads start
			if s.edit == "" {
				os.Remove(e.path)
			} else {
				e.write(s.edit, vtime.DefaultEpoch.Add(-time.Minute))
			}
			x.Spawn("reload", func() {
				vtime.Sleep(3100 * time.Millisecond) // the poll period
				x.Yield(sched.Op{Kind: "op:reload"})
				fc.VerifReload()
			})
			for ti, gs := range s.getters {
				gs := gs
				x.Spawn(fmt.Sprintf("G%d", ti), func() {
					vtime.Sleep(3100 * time.Millisecond)
					for _, g := range gs {
						x.Yield(sched.Op{Kind: "op:" + g})
						callGetter(fc, g)
					}
				})
			}
			x.PreTeardown = func() { got = append(got, lg.New()...) }
			return func() string {
				vrt.Filter = nil
				for _, r := range got {
					if !r.Lib() {
						ignored[shortSym(r.Sites[0])+" ~ "+shortSym(r.Sites[1])]++
						continue
					}
					k := raceKey18(r)
					if f := seen[k]; f != nil {
						f.n++
					} else {
						seen[k] = &found{rep: r, scen: s.name, choices: append([]int{}, cur.Choices...), n: 1}
					}
				}
				got = got[:0]
				return ""
			}
		}
		st, _, err := dfs.Explore(sc, dfs.Config{Preemptions: 2, Faults: 0, StepCap: 5000}, false)
		if err != nil {
			c.Violation("C18:race:harness-error", err.Error()+" in "+s.name, nil)
			continue
		}
		lg.New()
		c.Count("race_scenarios", 1)
		c.Count("race_schedules", int64(st.Executions))
		c.Count("race_transitions", int64(st.Steps))
	}
	var keys []string
	for k := range seen {
		keys = append(keys, k)
	}
	sort.Strings(keys)
	for _, k := range keys {
		f := seen[k]
		c.Violation(k, fmt.Sprintf("scenario %s — data race between a getter and the reload: %s (%s) and %s (%s) are not ordered by any synchronisation in schedule %v; on a plain Go map this is the fatal 'concurrent map read and map write', and a getter can see the file half applied", f.scen, meth(f.rep.Sites[0]), f.rep.Kinds[0], meth(f.rep.Sites[1]), f.rep.Kinds[1], f.choices),
			map[string]interface{}{"engine": "E1-race", "scenario": f.scen, "choices": f.choices, "report": f.rep.Text, "seen_in_schedules": f.n})
	}
	var ig []string
	for k := range ignored {
		if !strings.Contains(k, ".func") {
			ig = append(ig, k)
		}
	}
	sort.Strings(ig)
	if len(ig) > 0 {
		c.Info("race reports not between two library functions (harness/shim bookkeeping, ignored): %s", strings.Join(ig, "; "))
	}
}

func meth(fn string) string {
	if i := strings.LastIndex(fn, "/"); i >= 0 {
		fn = fn[i+1:]
	}
	return fn
}

// raceKey18 names a finding by the function containing the unordered read (or the pair for two writes).
func raceKey18(r racelog.Report) string {
	a, b := meth(r.Sites[0]), meth(r.Sites[1])
	short := func(s string) string {
		if i := strings.LastIndex(s, ")."); i >= 0 {
			return s[i+2:]
		}
		return s
	}
	switch {
	case r.Kinds[0] == "Read" && r.Kinds[1] == "Write":
		return "C18:race:unordered-read-in:" + short(a)
	case r.Kinds[0] == "Write" && r.Kinds[1] == "Read":
		return "C18:race:unordered-read-in:" + short(b)
	}
	x, y := short(a), short(b)
	if x > y {
		x, y = y, x
	}
	return "C18:race:write-write:" + x + "~" + y
}

// shortSym drops the package path of a symbol.
func shortSym(fn string) string {
	if i := strings.LastIndex(fn, "/"); i >= 0 {
		return fn[i+1:]
	}
	return fn
}

// tornSnapshots (ordinary build): the same reload-against-getter scenario under the schedule explorer,
// judged by what a getter sees. One edit changes two keys at once; a snapshot getter (String/ToString)
// running concurrently with the reload must show both keys from the old file or both from the new
// one - never one of each (the lock must cover the whole application of a file, not single keys).
func tornSnapshots(c *evid.Ctx) {
	e := newEnv(c)
	if e == nil {
		return
	}
	defer os.RemoveAll(e.dir)
	for _, getter := range []string{"String", "ToString"} {
		getter := getter
		sc := func(x *sched.Exec) func() string {
			vrt.Filter = func(string) bool { return false }
			vtime.Epoch = vtime.DefaultEpoch
			e.write("k1=old\nk2=old\nk3=old\n", vtime.DefaultEpoch.Add(-time.Hour))
			fc := conffile.VerifNew(conffile.WithHomePath(e.dir), conffile.WithConfigObserver(config.NewConfigObserver()))
			e.write("k1=new\nk2=new\nk3=new\n", vtime.DefaultEpoch.Add(-time.Minute))
			var snaps []string
			x.Spawn("reload", func() {
				vtime.Sleep(3100 * time.Millisecond)
				x.Yield(sched.Op{Kind: "op:reload"})
				fc.VerifReload()
			})
			x.Spawn("getter", func() {
				vtime.Sleep(3100 * time.Millisecond)
				for i := 0; i < 2; i++ {
					x.Yield(sched.Op{Kind: "op:" + getter})
					if getter == "String" {
						snaps = append(snaps, fc.String())
					} else {
						snaps = append(snaps, fc.ToString())
					}
				}
			})
			return func() string {
				vrt.Filter = nil
				if x.Deadlock {
					return "deadlock: " + strings.Join(x.Blocked, ",")
				}
				for _, t := range x.Threads() {
					if t.Panic != nil {
						return fmt.Sprintf("panic: thread %s died: %v", t.Name, t.Panic)
					}
				}
				for _, s := range snaps {
					olds, news := 0, 0
					for _, k := range []string{"k1", "k2", "k3"} {
						if strings.Contains(s, k+"=old") {
							olds++
						}
						if strings.Contains(s, k+"=new") {
							news++
						}
					}
					if olds+news != 3 || (olds != 0 && news != 0) {
						return fmt.Sprintf("torn: %s() during a reload shows %d keys of the old file and %d of the new one: %q", getter, olds, news, strings.ReplaceAll(s, "\n", " "))
					}
				}
				return ""
			}
		}
		st, viols, err := dfs.Explore(sc, dfs.Config{Preemptions: 3, Faults: 0, StepCap: 5000}, false)
		if err != nil {
			c.Broken(err.Error())
			continue
		}
		c.Count("torn_snapshot_schedules", int64(st.Executions))
		c.Count("states", int64(st.Executions))
		for _, v := range viols {
			kind := strings.SplitN(v.Verdict, ":", 2)[0]
			c.Violation("C18:concurrent-getter:"+kind, fmt.Sprintf("%s — schedule %v", v.Verdict, v.Choices), map[string]interface{}{"engine": "E1", "choices": v.Choices, "trace": v.Trace})
		}
	}
}
