// Package c11 decides C11: request queues are bounded FIFOs that lose, duplicate or strand nothing.
// Sequential part: explicit-state search (E2) over put/put-force/get/clear/set-capacity histories
// against a slice model with refusal/eviction accounting. Concurrent part: exhaustive schedule
// enumeration (E1) of producers and blocking/timed consumers on the real queue.
package c11

import (
	"fmt"
	"github.com/whatap/golib/util/dateutil"
	"reflect"
	"sort"
	"strings"
	"time"
	"unsafe"

	"verif/engine/dfs"
	"verif/engine/evid"
	"verif/engine/seqx"
	"verif/engine/shard"

	"github.com/whatap/golib/util/queue"
	"github.com/whatap/golib/verifshim/sched"
	"github.com/whatap/golib/verifshim/vtime"
)

// ---------------------------------------------------------------------------------------------
// sequential model

type qop struct {
	name string
	a, b int
}

func (o qop) String() string {
	switch o.name {
	case "GetTimeout":
		return fmt.Sprintf("GetTimeout(%d)", o.a)
	case "SetCapacity":
		return fmt.Sprintf("SetCapacity(%d)", o.a)
	case "SetCapacity2":
		return fmt.Sprintf("SetCapacity(%d,%d)", o.a, o.b)
	}
	return o.name + "()"
}

type model struct {
	q    [2][]string
	capa [2]int
}

// implQ wraps the real queue with its callback recorders.
type implQ struct {
	single *queue.RequestQueue
	double *queue.RequestDoubleQueue
	failed []string
	over   []string
}

func setField(obj interface{}, name string, val interface{}) {
	f := reflect.ValueOf(obj).Elem().FieldByName(name)
	reflect.NewAt(f.Type(), unsafe.Pointer(f.UnsafeAddr())).Elem().Set(reflect.ValueOf(val))
}

func newImpl(double bool, c1, c2 int) *implQ {
	iq := &implQ{}
	if double {
		iq.double = queue.NewRequestDoubleQueue(c1, c2)
		setField(iq.double, "failed1", func(v interface{}) { iq.failed = append(iq.failed, "1:"+v.(string)) })
		setField(iq.double, "failed2", func(v interface{}) { iq.failed = append(iq.failed, "2:"+v.(string)) })
		setField(iq.double, "overflowed1", func(v interface{}) { iq.over = append(iq.over, "1:"+v.(string)) })
		setField(iq.double, "overflowed2", func(v interface{}) { iq.over = append(iq.over, "2:"+v.(string)) })
	} else {
		iq.single = queue.NewRequestQueue(c1)
		iq.single.Failed = func(v interface{}) { iq.failed = append(iq.failed, "1:"+v.(string)) }
		iq.single.Overflowed = func(v interface{}) { iq.over = append(iq.over, "1:"+v.(string)) }
	}
	return iq
}

func (m *model) freshID() string {
	for i := 0; ; i++ {
		id := fmt.Sprintf("e%d", i)
		live := false
		for _, q := range m.q {
			for _, x := range q {
				if x == id {
					live = true
				}
			}
		}
		if !live {
			return id
		}
	}
}

func fmtRes(v interface{}) string {
	if v == nil {
		return "nil"
	}
	return fmt.Sprint(v)
}

// step applies op to the real queue and the model; returns a mismatch description or "".
func step(iq *implQ, m *model, o qop) (msg string) {
	defer func() {
		if r := recover(); r != nil {
			msg = fmt.Sprintf("%s panicked: %v", o, r)
		}
	}()
	iq.failed, iq.over = nil, nil
	var expFailed, expOver []string
	which := 0
	if strings.HasSuffix(o.name, "2") && o.name != "SetCapacity2" {
		which = 1
	}
	room := func() bool { return m.capa[which] <= 0 || len(m.q[which]) < m.capa[which] }
	switch {
	case o.name == "Put" || o.name == "Put1" || o.name == "Put2":
		id := m.freshID()
		var got bool
		if iq.single != nil {
			got = iq.single.Put(id)
		} else if which == 0 {
			got = iq.double.Put1(id)
		} else {
			got = iq.double.Put2(id)
		}
		want := room()
		if want {
			m.q[which] = append(m.q[which], id)
		} else {
			expFailed = append(expFailed, fmt.Sprintf("%d:%s", which+1, id))
		}
		if got != want {
			return fmt.Sprintf("%s(%s) returned %v, model %v (queue %v capacity %d)", o.name, id, got, want, m.q[which], m.capa[which])
		}
	case strings.HasPrefix(o.name, "PutForce"):
		id := m.freshID()
		if iq.single != nil {
			iq.single.PutForce(id)
		} else if which == 0 {
			iq.double.PutForce1(id)
		} else {
			iq.double.PutForce2(id)
		}
		if !room() {
			for len(m.q[which]) >= m.capa[which] && len(m.q[which]) > 0 {
				expOver = append(expOver, fmt.Sprintf("%d:%s", which+1, m.q[which][0]))
				m.q[which] = m.q[which][1:]
			}
		}
		m.q[which] = append(m.q[which], id)
	case o.name == "GetNoWait" || o.name == "GetTimeout":
		var got interface{}
		t0 := vtime.Now()
		if o.name == "GetNoWait" {
			if iq.single != nil {
				got = iq.single.GetNoWait()
			} else {
				got = iq.double.GetNoWait()
			}
		} else {
			if iq.single != nil {
				got = iq.single.GetTimeout(o.a)
			} else {
				got = iq.double.GetTimeout(o.a)
			}
		}
		elapsed := vtime.Now().Sub(t0)
		want := "nil"
		if len(m.q[0]) > 0 {
			want = m.q[0][0]
			m.q[0] = m.q[0][1:]
		} else if len(m.q[1]) > 0 {
			want = m.q[1][0]
			m.q[1] = m.q[1][1:]
		}
		if fmtRes(got) != want {
			return fmt.Sprintf("%s returned %s, model head %s", o, fmtRes(got), want)
		}
		if o.name == "GetTimeout" {
			if want == "nil" && elapsed < time.Duration(o.a)*time.Millisecond {
				return fmt.Sprintf("%s returned empty-handed after %v of virtual time, before its timeout", o, elapsed)
			}
			if want != "nil" && elapsed != 0 {
				return fmt.Sprintf("%s waited %v although an element was available", o, elapsed)
			}
		}
	case o.name == "Clear":
		if iq.single != nil {
			iq.single.Clear()
		} else {
			iq.double.Clear()
		}
		m.q[0], m.q[1] = nil, nil
	case o.name == "SetCapacity":
		iq.single.SetCapacity(o.a)
		m.capa[0] = o.a
	case o.name == "SetCapacity2":
		iq.double.SetCapacity(o.a, o.b)
		m.capa[0], m.capa[1] = o.a, o.b
	}
	if strings.Join(iq.failed, ",") != strings.Join(expFailed, ",") {
		return fmt.Sprintf("%s: failure callback got %v, model %v", o, iq.failed, expFailed)
	}
	if strings.Join(iq.over, ",") != strings.Join(expOver, ",") {
		return fmt.Sprintf("%s: overflow callback got %v, model %v", o, iq.over, expOver)
	}
	return ""
}

func observe(iq *implQ, m *model) string {
	if iq.single != nil {
		if iq.single.Size() != len(m.q[0]) {
			return fmt.Sprintf("Size() %d, model %d", iq.single.Size(), len(m.q[0]))
		}
		if iq.single.GetCapacity() != m.capa[0] {
			return fmt.Sprintf("GetCapacity() %d, model %d", iq.single.GetCapacity(), m.capa[0])
		}
		return ""
	}
	if iq.double.Size1() != len(m.q[0]) || iq.double.Size2() != len(m.q[1]) || iq.double.Size() != len(m.q[0])+len(m.q[1]) {
		return fmt.Sprintf("Size1/Size2/Size %d/%d/%d, model %d/%d", iq.double.Size1(), iq.double.Size2(), iq.double.Size(), len(m.q[0]), len(m.q[1]))
	}
	return ""
}

func seqSys(double bool, c1, c2, depth int) *seqx.Sys {
	var ops []qop
	if !double {
		ops = []qop{{"Put", 0, 0}, {"PutForce", 0, 0}, {"GetNoWait", 0, 0}, {"GetTimeout", 0, 0}, {"GetTimeout", 2, 0}, {"GetTimeout", 30, 0}, {"Clear", 0, 0}}
		for _, c := range []int{0, 1, 2, 3} {
			ops = append(ops, qop{"SetCapacity", c, 0})
		}
	} else {
		ops = []qop{{"Put1", 0, 0}, {"Put2", 0, 0}, {"PutForce1", 0, 0}, {"PutForce2", 0, 0}, {"GetNoWait", 0, 0}, {"GetTimeout", 0, 0}, {"GetTimeout", 30, 0}, {"Clear", 0, 0}}
		for _, c := range [][2]int{{0, 0}, {1, 2}, {2, 1}} {
			ops = append(ops, qop{"SetCapacity2", c[0], c[1]})
		}
	}
	return &seqx.Sys{
		Name: fmt.Sprintf("queue(double=%v,cap=%d/%d)", double, c1, c2),
		NOps: len(ops),
		New: func() (interface{}, interface{}) {
			m := &model{}
			m.capa = [2]int{c1, c2}
			return newImpl(double, c1, c2), m
		},
		Step:     func(i, m interface{}, op int) string { return step(i.(*implQ), m.(*model), ops[op]) },
		Observe:  func(i, m interface{}) string { return observe(i.(*implQ), m.(*model)) },
		Key:      func(i interface{}) string { iq := i.(*implQ); return seqx.Dump(iq.single) + seqx.Dump(iq.double) },
		OpLabel:  func(op int) string { return ops[op].String() },
		MaxDepth: depth,
		Workers:  1,
		ModelKey: func(m interface{}) string { md := m.(*model); return fmt.Sprint(md.q, md.capa) },
	}
}

// ---------------------------------------------------------------------------------------------
// concurrent scenarios

type cscen struct {
	double    bool
	capa      int
	force     bool
	producers []int // elements per producer
	consumers []int // gets per consumer
	timed     int   // >0: consumers use GetTimeout(timed)
	consFirst bool
}

func (s cscen) String() string {
	return fmt.Sprintf("double=%v cap=%d force=%v producers=%v consumers=%v timedGet=%d consumersFirst=%v", s.double, s.capa, s.force, s.producers, s.consumers, s.timed, s.consFirst)
}

func (s cscen) scenario() dfs.Scenario {
	return func(x *sched.Exec) func() string {
		iq := &implQ{}
		var failed, over []string
		if s.double {
			iq.double = queue.NewRequestDoubleQueue(s.capa, s.capa)
			setField(iq.double, "failed1", func(v interface{}) { failed = append(failed, v.(string)) })
			setField(iq.double, "failed2", func(v interface{}) { failed = append(failed, v.(string)) })
			setField(iq.double, "overflowed1", func(v interface{}) { over = append(over, v.(string)) })
			setField(iq.double, "overflowed2", func(v interface{}) { over = append(over, v.(string)) })
		} else {
			iq.single = queue.NewRequestQueue(s.capa)
			iq.single.Failed = func(v interface{}) { failed = append(failed, v.(string)) }
			iq.single.Overflowed = func(v interface{}) { over = append(over, v.(string)) }
		}
		accepted := map[string]bool{}
		refused := map[string]bool{}
		got := make([][]string, len(s.consumers))
		early := ""
		var prio []string
		spawnCons := func() {
			for ci, n := range s.consumers {
				ci, n := ci, n
				x.Spawn(fmt.Sprintf("C%d", ci), func() {
					for k := 0; k < n; k++ {
						x.Yield(sched.Op{Kind: "op:get"})
						var v interface{}
						t0 := x.Now
						if s.timed > 0 {
							if s.double {
								v = iq.double.GetTimeout(s.timed)
							} else {
								v = iq.single.GetTimeout(s.timed)
							}
							if v == nil && x.Now-t0 < int64(s.timed)*int64(time.Millisecond) {
								early = fmt.Sprintf("timed get returned empty-handed after %dns < %dms", x.Now-t0, s.timed)
							}
						} else if s.double {
							v = iq.double.Get()
						} else {
							v = iq.single.Get()
						}
						if v != nil {
							got[ci] = append(got[ci], v.(string))
							prio = append(prio, v.(string))
						} else if s.timed == 0 {
							early = "a blocking Get returned nil (no element was ever enqueued as nil): it came back without an element"
						}
					}
				})
			}
		}
		spawnProd := func() {
			for pi, n := range s.producers {
				pi, n := pi, n
				x.Spawn(fmt.Sprintf("P%d", pi), func() {
					for k := 0; k < n; k++ {
						id := fmt.Sprintf("p%d.%d", pi, k)
						x.Yield(sched.Op{Kind: "op:put"})
						var ok bool
						switch {
						case s.double && s.force && pi%2 == 0:
							iq.double.PutForce1(id)
							ok = true
						case s.double && s.force:
							iq.double.PutForce2(id)
							ok = true
						case s.double && pi%2 == 0:
							ok = iq.double.Put1(id)
						case s.double:
							ok = iq.double.Put2(id)
						case s.force:
							iq.single.PutForce(id)
							ok = true
						default:
							ok = iq.single.Put(id)
						}
						if ok {
							accepted[id] = true
						} else {
							refused[id] = true
						}
					}
				})
			}
		}
		if s.consFirst {
			spawnCons()
			spawnProd()
		} else {
			spawnProd()
			spawnCons()
		}
		return func() string {
			if x.HitStepCap {
				return "livelock: step cap hit"
			}
			for _, t := range x.Threads() {
				if t.Panic != nil {
					return fmt.Sprintf("panic in %s: %v", t.Name, t.Panic)
				}
			}
			if early != "" {
				if strings.HasPrefix(early, "a blocking") {
					return "spurious-nil: " + early
				}
				return "early-timeout: " + early
			}
			size := 0
			if s.double {
				size = iq.double.Size()
			} else {
				size = iq.single.Size()
			}
			if x.Deadlock {
				for _, b := range x.Blocked {
					if strings.HasSuffix(b, "@lock") {
						return "deadlock: " + strings.Join(x.Blocked, ",")
					}
					if strings.HasPrefix(b, "P") {
						return "producer blocked: " + strings.Join(x.Blocked, ",")
					}
				}
				if size > 0 {
					return fmt.Sprintf("stranded consumer (lost wake-up): %v blocked in Get while %d element(s) are queued", x.Blocked, size)
				}
			}
			// accounting: accepted = delivered + evicted + still queued, nothing twice
			seen := map[string]int{}
			for _, g := range got {
				for _, e := range g {
					seen[e]++
				}
			}
			for _, e := range over {
				seen[e]++
			}
			var rest []string
			for {
				var v interface{}
				if s.double {
					v = iq.double.GetNoWait()
				} else {
					v = iq.single.GetNoWait()
				}
				if v == nil {
					break
				}
				rest = append(rest, v.(string))
				seen[v.(string)]++
			}
			// boundedness: what is still queued at the end never exceeds the capacity (with consumers that
			// take nothing, everything accepted is still there: two producers racing for the last free
			// slot must not both be accepted)
			if lim := s.capa; lim > 0 {
				if s.double {
					lim *= 2
				}
				if len(rest) > lim {
					return fmt.Sprintf("bound exceeded: %d elements are queued (%v) in a queue of capacity %d", len(rest), rest, s.capa)
				}
			}
			for e, n := range seen {
				if n != 1 {
					return fmt.Sprintf("element %s accounted %d times (delivered %v evicted %v queued %v)", e, n, got, over, rest)
				}
				if !accepted[e] {
					return fmt.Sprintf("element %s delivered/evicted/queued although its put was refused", e)
				}
			}
			for e := range accepted {
				if seen[e] != 1 {
					return fmt.Sprintf("accepted element %s lost (delivered %v evicted %v queued %v)", e, got, over, rest)
				}
			}
			fs := append([]string{}, failed...)
			var rs []string
			for e := range refused {
				rs = append(rs, e)
			}
			sort.Strings(fs)
			sort.Strings(rs)
			if strings.Join(fs, ",") != strings.Join(rs, ",") {
				return fmt.Sprintf("refused puts %v but failure callback saw %v", rs, fs)
			}
			// per-producer order at each consumer (and at the tail of the queue)
			for _, g := range append(append([][]string{}, got...), rest) {
				last := map[byte]int{}
				for _, e := range g {
					var p, k int
					fmt.Sscanf(e, "p%d.%d", &p, &k)
					if l, ok := last[byte(p)]; ok && k < l {
						return fmt.Sprintf("per-producer order broken: %v", g)
					}
					last[byte(p)] = k
				}
			}
			// a single consumer sees a global FIFO: evictions oldest first, order per producer
			return ""
		}
	}
}

func cscens(thorough bool) []cscen {
	var out []cscen
	for _, double := range []bool{false, true} {
		for _, capa := range []int{0, 1, 2} {
			for _, force := range []bool{false, true} {
				for _, prods := range [][]int{{1}, {2}, {1, 1}, {2, 1}} {
					for _, cons := range [][]int{{0}, {1}, {2}, {1, 1}} {
						for _, timed := range []int{0, 30} {
							for _, cf := range []bool{true, false} {
								if !thorough && len(prods) == 2 && len(cons) == 2 && prods[0] == 2 {
									continue
								}
								out = append(out, cscen{double, capa, force, prods, cons, timed, cf})
							}
						}
					}
				}
			}
		}
	}
	return out
}

func Run(c *evid.Ctx) {
	if w := shard.Worker(); w != nil {
		scs := cscens(c.Thorough())
		// The thorough tier iterates the bound: everything with 2 preemptions first, then 3 preemptions
		// under an execution cap per scenario and a wall-clock budget per worker (a hit is reported as
		// non-exhaustive for the larger bound, never as a verdict).
		type bnd struct{ pb, maxExec int }
		rounds := []bnd{{2, 0}}
		var deadline time.Time
		if c.Thorough() {
			rounds = append(rounds, bnd{3, 150000})
			deadline = time.Now().Add(28 * time.Minute)
		}
		for ri, r := range rounds {
			pb := r.pb
			for i, s := range scs {
				if i%w.N != w.I {
					continue
				}
				st, viols, err := dfs.Explore(s.scenario(), dfs.Config{Preemptions: pb, Faults: 0, StepCap: 3000, MaxExec: r.maxExec, Deadline: deadline}, false)
				if err != nil {
					c.Broken(err.Error() + " in " + s.String())
					continue
				}
				if st.Capped {
					c.NotExhaustive(fmt.Sprintf("execution cap or time budget hit at preemption bound %d in %s", pb, s.String()))
				}
				c.Count("states", int64(st.Executions))
				c.Count("transitions", int64(st.Steps))
				if ri == 0 {
					c.Count("concurrent_scenarios", 1)
					c.Count("executions_ending_with_consumer_waiting_on_empty_queue", int64(st.Deadlocks))
				}
				if i%53 == 0 {
					c.Sample(map[string]interface{}{"concurrent_scenario": s.String(), "schedules": st.Executions, "preemption_bound": pb})
				}
				for _, v := range viols {
					kind := strings.SplitN(v.Verdict, ":", 2)[0]
					kind = strings.SplitN(kind, " ", 2)[0]
					key := fmt.Sprintf("C11:concurrent:double=%v:%s", s.double, kind)
					c.Violation(key, fmt.Sprintf("%s — %s — schedule %v", s.String(), v.Verdict, v.Choices), map[string]interface{}{"engine": "E1", "scenario": s.String(), "choices": v.Choices, "trace": v.Trace})
				}
			}
		}
		return
	}
	// sequential part in this process (virtual clock is process-global: single worker)
	vtime.SetVirtual(vtime.Epoch)
	depth := 9
	if c.Thorough() {
		depth = 12
	}
	for _, double := range []bool{false, true} {
		for _, capa := range [][2]int{{0, 0}, {1, 1}, {2, 1}, {3, 2}} {
			d := depth
			if double {
				d--
			}
			r := seqx.BFS(seqSys(double, capa[0], capa[1], d))
			c.Count("states", int64(r.States))
			c.Count("transitions", int64(r.Transitions))
			c.Count("sequential_configurations", 1)
			if r.Fixpoint {
				c.Count("sequential_configurations_to_fixpoint", 1)
			} else {
				c.NotExhaustive(fmt.Sprintf("sequential search of double=%v capacity %v complete to depth %d, not to a fixpoint (unbounded queue)", double, capa, d))
			}
			c.Sample(map[string]interface{}{"sequential": fmt.Sprintf("double=%v capacity=%v", double, capa), "states": r.States, "transitions": r.Transitions, "depth": r.Depth, "fixpoint": r.Fixpoint, "frontier": r.SampleHist})
			for _, v := range r.Viols {
				last := v.Labels[len(v.Labels)-1]
				key := fmt.Sprintf("C11:sequential:double=%v:%s", double, strings.SplitN(last, "(", 2)[0])
				c.Violation(key, fmt.Sprintf("double=%v capacity=%v after %v: %s", double, capa, v.Labels, v.What), map[string]interface{}{"engine": "E2", "history": v.Labels, "what": v.What})
			}
		}
	}
	// The timed get measures its timeout on one clock: a server-time correction installed in the
	// date utilities (SetDelta / SetServerTime move Now(), not the local clock) must not shorten or
	// stretch it. The bounded configurations again, shallower, under two corrections.
	for _, delta := range []int64{-10000, 10000} {
		dateutil.SetDelta(delta)
		for _, double := range []bool{false, true} {
			r := seqx.BFS(seqSys(double, 1, 1, 5))
			c.Count("states", int64(r.States))
			c.Count("transitions", int64(r.Transitions))
			c.Count("sequential_configurations", 1)
			for _, v := range r.Viols {
				last := v.Labels[len(v.Labels)-1]
				key := fmt.Sprintf("C11:sequential:double=%v:%s", double, strings.SplitN(last, "(", 2)[0])
				c.Violation(key, fmt.Sprintf("double=%v capacity=[1 1] with the server-time correction SetDelta(%d) installed, after %v: %s", double, delta, v.Labels, v.What), map[string]interface{}{"engine": "E2", "history": v.Labels, "what": v.What, "delta": delta})
			}
		}
	}
	dateutil.SetDelta(0)
	vtime.ClearVirtual()
	shard.Spawn(c, 16, true)
	c.Cov["traces_validated_against_impl"] = c.Counter("transitions")
	c.Cov["rule"] = "sequential: states = distinct canonical heaps of the real queue, transitions = real calls compared with the FIFO model (return value, callbacks, sizes, virtual elapsed time of timed gets); concurrent: states = complete schedules of producers/consumers on the real queue under the cooperative scheduler, each checked for exactly-once accounting, refusals, per-producer order, early time-outs and stranded consumers"
	c.Assume("virtual time: a Sleep takes at least 1 ms of virtual time; timed gets are judged on the virtual clock")
	c.Assume("element identities are reused once an element has left the queue (keeps the sequential state space finite for bounded capacities)")
}
