package c10

import (
	"fmt"
	"sort"
	"strings"

	"verif/engine/dfs"
	"verif/engine/evid"
	"verif/engine/racelog"
	"verif/engine/shard"
	"verif/props/coll"

	"github.com/whatap/golib/verifshim/sched"
)

// The race clause of C10 ("contains no data race") is decided by the same schedule enumeration, run
// in a -race build in which the scheduler's own hand-offs are invisible to the detector and the
// modelled mutex/condition/thread primitives announce the happens-before edges of their real
// counterparts (shim/sched/race_on.go). Every explored schedule is then judged by the detector under
// the happens-before relation of the code under test alone: a report means two conflicting accesses
// that no synchronisation of the library orders in that schedule.

func raceScenarios(thorough bool) []*scenario {
	var out []*scenario
	for _, d := range coll.Descs {
		all := opsFor(d, 2, 1, nil)
		pfs := prefills(d)
		ctors := []int{0}
		if d.Family == "queue" || d.Family == "dqueue" {
			ctors = []int{0, 1}
		}
		for _, ci := range ctors {
			for _, pf := range pfs {
				// every unordered pair of point operations (a pair of pure readers cannot race, but which
				// operations are pure readers is exactly what is not assumed)
				for i, a := range all {
					for _, b := range all[i:] {
						out = append(out, &scenario{desc: d, ctor: ci, prefill: pf, threads: [][]coll.Op{{a}, {b}}})
					}
				}
				if thorough {
					muts := pick(opsFor(d, 2, 1, mutators), 6)
					for _, a := range muts {
						for _, b := range muts {
							for _, c2 := range all {
								out = append(out, &scenario{desc: d, ctor: ci, prefill: pf, threads: [][]coll.Op{{a, b}, {c2}}})
							}
						}
					}
				}
			}
		}
	}
	return out
}

// RaceWorker runs in the -race build.
func RaceWorker(c *evid.Ctx) {
	coll.KeyGen = coll.KeysNZ
	if !sched.RaceOn {
		c.Broken("race worker started in a binary built without -race")
		return
	}
	w := shard.RaceWorker()
	lg, err := racelog.Open()
	if err != nil {
		c.Broken(err.Error())
		return
	}
	lg.New() // drop anything reported during start-up
	scs := raceScenarios(c.Thorough())
	type found struct {
		rep     racelog.Report
		sc      *scenario
		choices []int
		n       int
	}
	seen := map[string]*found{}
	ignored := map[string]int{}
	for i, s := range scs {
		if i%w.N != w.I {
			continue
		}
		s := s
		var cur *sched.Exec
		var got []racelog.Report
		sc := func(x *sched.Exec) func() string {
			cur = x
			obj := s.build()
			for ti, ops := range s.threads {
				ops := ops
				x.Spawn(fmt.Sprintf("T%d", ti), func() {
					for _, op := range ops {
						x.Yield(sched.Op{Kind: "op:" + op.Label})
						coll.Apply(obj, op)
					}
				})
			}
			x.PreTeardown = func() { got = append(got, lg.New()...) }
			return func() string {
				for _, r := range got {
					if !r.Lib() {
						ignored[shortSym(r.Sites[0])+" ~ "+shortSym(r.Sites[1])]++
						continue
					}
					k := r.Key()
					if f := seen[s.desc.Name+"|"+k]; f != nil {
						f.n++
					} else {
						seen[s.desc.Name+"|"+k] = &found{rep: r, sc: s, choices: append([]int{}, cur.Choices...), n: 1}
					}
				}
				got = got[:0]
				return ""
			}
		}
		st, _, err := dfs.Explore(sc, dfs.Config{Preemptions: 2, Faults: 0, StepCap: 5000}, false)
		if err != nil {
			c.Violation("C10:race:harness-error", err.Error()+" in "+s.String(), nil)
			continue
		}
		lg.New() // reports of the unwinding after the last execution belong to no execution
		c.Count("race_scenarios", 1)
		c.Count("race_schedules", int64(st.Executions))
		c.Count("race_transitions", int64(st.Steps))
	}
	var keys []string
	for k := range seen {
		keys = append(keys, k)
	}
	sort.Strings(keys)
	for _, k := range keys {
		f := seen[k]
		c.Violation(raceKey(f.sc.desc.Name, f.rep), fmt.Sprintf("%s — data race: %s (%s) and %s (%s) are not ordered by any synchronisation in schedule %v", f.sc.String(), short(f.rep.Sites[0]), f.rep.Kinds[0], short(f.rep.Sites[1]), f.rep.Kinds[1], f.choices),
			map[string]interface{}{"engine": "E1-race", "scenario": f.sc.String(), "choices": f.choices, "report": f.rep.Text, "seen_in_schedules": f.n})
	}
	var ig []string
	for k := range ignored {
		if !strings.Contains(k, ".func") {
			ig = append(ig, k)
		}
	}
	sort.Strings(ig)
	if len(ig) > 0 {
		c.Info("race reports not between two library functions (harness/shim bookkeeping, ignored): %s", strings.Join(ig, "; "))
	}
}

// raceKey names a finding by its call site: for a read/write race the function containing the
// unordered read (the writers it collides with are many and all hold the lock), for a write/write
// race the pair of functions.
func raceKey(typ string, r racelog.Report) string {
	a, b := method(r.Sites[0]), method(r.Sites[1])
	switch {
	case r.Kinds[0] == "Read" && r.Kinds[1] == "Write":
		return fmt.Sprintf("C10:race:%s:unordered-read-in:%s", typ, a)
	case r.Kinds[0] == "Write" && r.Kinds[1] == "Read":
		return fmt.Sprintf("C10:race:%s:unordered-read-in:%s", typ, b)
	}
	if a > b {
		a, b = b, a
	}
	return fmt.Sprintf("C10:race:%s:write-write:%s~%s", typ, a, b)
}

// method reduces a symbol to its method or function name.
func method(fn string) string {
	fn = short(fn)
	if i := strings.LastIndex(fn, ")."); i >= 0 {
		return fn[i+2:]
	}
	if i := strings.Index(fn, "."); i >= 0 {
		return fn[i+1:]
	}
	return fn
}

func short(fn string) string {
	if i := strings.LastIndex(fn, "/"); i >= 0 {
		return fn[i+1:]
	}
	return fn
}

// shortSym drops the package path of a symbol.
func shortSym(fn string) string {
	if i := strings.LastIndex(fn, "/"); i >= 0 {
		return fn[i+1:]
	}
	return fn
}
