// Package c10 decides C10: shared collections are linearizable, uncorrupted and never block on
// their own lock — by exhaustive schedule enumeration (engine E1) of small concurrent scenarios on
// the real types, with the real type run sequentially as the specification.
package c10

import (
	"fmt"
	"os"
	"reflect"
	"sort"
	"strings"
	"time"

	"verif/engine/dfs"
	"verif/engine/evid"
	"verif/engine/seqx"
	"verif/engine/shard"
	"verif/props/coll"

	"github.com/whatap/golib/verifshim/sched"
	"github.com/whatap/golib/verifshim/vsync"
)

type scenario struct {
	desc    *coll.Desc
	ctor    int
	prefill []coll.Op
	threads [][]coll.Op
	// seqBlocked: some sequential order blocks forever on the real type (a self-deadlock, reported
	// by the self-deadlock pass); the scenario is then skipped by the linearizability pass.
	seqBlocked     bool
	nBlockedOrders int
}

func (s *scenario) String() string {
	var ts []string
	for _, t := range s.threads {
		var os []string
		for _, o := range t {
			os = append(os, o.Label)
		}
		ts = append(ts, strings.Join(os, ";"))
	}
	var pf []string
	for _, o := range s.prefill {
		pf = append(pf, o.Label)
	}
	init := strings.Join(pf, ";")
	if len(pf) > 4 {
		init = fmt.Sprintf("%s;...(%d insertions of distinct filler keys: one below the growth threshold)", pf[0], len(pf))
	}
	return fmt.Sprintf("%s %s init[%s] || %s", s.desc.Name, s.desc.Ctors[s.ctor].Name, init, strings.Join(ts, " || "))
}

func (s *scenario) build() interface{} {
	obj := s.desc.Ctors[s.ctor].New()
	for _, o := range s.prefill {
		coll.Apply(obj, o)
	}
	return obj
}

type seqOutcome struct {
	order   []int // global op ids in sequential order
	results []string
	dump    string
}

// sequentialOutcomes runs every interleaving of whole operations (program order kept) on fresh
// instances of the real type: the specification of the scenario.
func (s *scenario) sequentialOutcomes() []seqOutcome {
	var outs []seqOutcome
	nth := len(s.threads)
	base := make([]int, nth)
	total := 0
	for i, t := range s.threads {
		base[i] = total
		total += len(t)
	}
	var rec func(pos []int, order []int)
	rec = func(pos []int, order []int) {
		if len(order) == total {
			var obj interface{}
			res := make([]string, total)
			blocked, _ := dfs.Solo(func() {
				obj = s.build()
				for _, id := range order {
					th, k := locate(base, id)
					res[id] = norm(s.threads[th][k].Method, coll.Apply(obj, s.threads[th][k]))
				}
			}, 100000)
			if blocked {
				// an order in which an operation blocks forever (a blocking Get on a queue that stays
				// empty, or a self-deadlock) is not a legal linearization; the scenario is skipped only
				// if no order at all completes
				s.nBlockedOrders++
				return
			}
			outs = append(outs, seqOutcome{order: append([]int{}, order...), results: res, dump: seqx.Dump(obj)})
			return
		}
		for th := 0; th < nth; th++ {
			if pos[th] < len(s.threads[th]) {
				pos[th]++
				rec(pos, append(order, base[th]+pos[th]-1))
				pos[th]--
			}
		}
	}
	rec(make([]int, nth), nil)
	if len(outs) == 0 {
		s.seqBlocked = true
	}
	return outs
}

func locate(base []int, id int) (int, int) {
	th := 0
	for th+1 < len(base) && base[th+1] <= id {
		th++
	}
	return th, id - base[th]
}

// check explores all schedules of the scenario within cfg.
func (s *scenario) check(cfg dfs.Config) (dfs.Stats, *dfs.Violation, map[string]bool, error) {
	spec := s.sequentialOutcomes()
	outcomes := map[string]bool{}
	if s.seqBlocked {
		return dfs.Stats{}, nil, outcomes, nil
	}
	total := 0
	base := make([]int, len(s.threads))
	for i, t := range s.threads {
		base[i] = total
		total += len(t)
	}
	sc := func(x *sched.Exec) func() string {
		obj := s.build()
		results := make([]string, total)
		callEv := make([]int, total)
		retEv := make([]int, total)
		for i := range callEv {
			callEv[i] = -1
			retEv[i] = -1
		}
		ev := 0
		for ti, ops := range s.threads {
			ti, ops := ti, ops
			x.Spawn(fmt.Sprintf("T%d", ti), func() {
				for k, op := range ops {
					id := base[ti] + k
					x.Yield(sched.Op{Kind: "op:" + op.Label})
					callEv[id] = ev
					ev++
					results[id] = norm(op.Method, coll.Apply(obj, op))
					retEv[id] = ev
					ev++
				}
			})
		}
		return func() string {
			if x.HitStepCap {
				return "livelock: step cap hit"
			}
			if x.Deadlock {
				onLock := false
				for _, b := range x.Blocked {
					if strings.HasSuffix(b, "@lock") {
						onLock = true
					}
				}
				if onLock || s.nBlockedOrders == 0 {
					return "deadlock: " + strings.Join(x.Blocked, ",")
				}
				return "" // a blocking Get waiting on an empty queue: some sequential orders block the same way
			}
			for _, t := range x.Threads() {
				if t.Panic != nil {
					return fmt.Sprintf("thread %s died: %v", t.Name, t.Panic)
				}
			}
			dump := seqx.Dump(obj)
			outcomes[strings.Join(results, "|")] = true
		next:
			for _, so := range spec {
				if so.dump != dump {
					continue
				}
				for i := range results {
					if !resEq(results[i], so.results[i]) {
						continue next
					}
				}
				// real-time order: if a returned before b was called, a must precede b
				posOf := make([]int, total)
				for p, id := range so.order {
					posOf[id] = p
				}
				for a := 0; a < total; a++ {
					for b := 0; b < total; b++ {
						if a != b && retEv[a] < callEv[b] && posOf[a] > posOf[b] {
							continue next
						}
					}
				}
				return ""
			}
			// classify: an operation panicked / results explainable but structure differs / not explainable
			var pm []string
			for id, r := range results {
				if strings.HasPrefix(r, "panic:") {
					th, k := locate(base, id)
					pm = append(pm, s.threads[th][k].Method)
				}
			}
			if len(pm) > 0 {
				sort.Strings(pm)
				return "panic-in:" + strings.Join(uniq(pm), "+") + " :: an operation panicked under this interleaving although no sequential order of the same operations does; results=" + strings.Join(results, "|")
			}
			for _, so := range spec {
				same := true
				for i := range results {
					if !resEq(results[i], so.results[i]) {
						same = false
						break
					}
				}
				if same {
					return "not linearizable: results match a sequential order but the final structure (or real-time order) does not; results=" + strings.Join(results, "|")
				}
			}
			return "not linearizable: results=" + strings.Join(results, "|")
		}
	}
	st, viols, err := dfs.Explore(sc, cfg, false)
	if err != nil {
		return st, nil, outcomes, err
	}
	if len(viols) > 0 {
		return st, &viols[0], outcomes, nil
	}
	return st, nil, outcomes, nil
}

// ---- alphabets ----------------------------------------------------------------------------------

var pointOps = map[string]bool{
	"Put": true, "PutFirst": true, "PutLast": true, "Add": true, "AddFirst": true, "AddLast": true, "AddNoOver": true, "AddIfExist": true,
	"Get": true, "GetLRU": true, "ContainsKey": true, "Contains": true, "HasKey": true, "Remove": true, "RemoveFirst": true, "RemoveLast": true,
	"Clear": true, "Size": true, "IsEmpty": true, "GetFirstKey": true, "GetLastKey": true, "GetFirst": true, "GetLast": true, "GetFirstValue": true, "GetLastValue": true,
	// queues
	"GetNoWait": true, "PutForce": true, "Put1": true, "Put2": true, "PutForce1": true, "PutForce2": true, "Size1": true, "Size2": true,
}

var mutators = map[string]bool{"Get": true, "Put": true, "PutFirst": true, "PutLast": true, "Add": true, "AddFirst": true, "AddLast": true, "Remove": true, "RemoveFirst": true, "RemoveLast": true, "Clear": true,
	"GetNoWait": true, "PutForce": true, "Put1": true, "Put2": true, "PutForce1": true, "PutForce2": true, "GetLRU": true, "AddNoOver": true, "AddIfExist": true}

// opsFor enumerates the point operations of a type over nk keys and nv values.
func opsFor(d *coll.Desc, nk, nv int, only map[string]bool) []coll.Op {
	obj := d.New()
	var ops []coll.Op
	for _, m := range coll.ExportedMethods(obj) {
		if !pointOps[m.Name] || (only != nil && !only[m.Name]) {
			continue
		}

		sets := coll.ArgSets(d, obj, m, nk, nv)
		for _, a := range sets {
			ops = append(ops, coll.MkOp(m.Name, a...))
		}
	}
	return ops
}

// growFill entries bring a default-sized table (101 x 0.75) to the point where one more new key
// makes it grow.
const growFill = 75

func hasMethod(d *coll.Desc, name string) bool {
	return reflect.ValueOf(d.New()).MethodByName(name).IsValid()
}

func prefills(d *coll.Desc) [][]coll.Op {
	var k0, k1 reflect.Value
	if d.KeyT != nil {
		ks := coll.KeysNZ(d, 2)
		k0, k1 = ks[0], ks[1]
	}
	switch d.Family {
	case "linkedmap", "map":
		v := coll.Vals(d.ValT, 1)[0]
		// grow: the default table (101 buckets, load factor 0.75) filled to its threshold, so that the
		// next insertion of a new key rebuilds the table while the other thread works on it
		var grow []coll.Op
		for _, k := range coll.FillerKeys(d, growFill) {
			grow = append(grow, coll.MkOp("Put", k, v))
		}
		out := [][]coll.Op{nil, {coll.MkOp("Put", k0, v)}, {coll.MkOp("Put", k0, v), coll.MkOp("Put", k1, v)}, grow}
		if hasMethod(d, "SetMax") {
			// bounded and full: the next new key evicts
			out = append(out, []coll.Op{coll.MkOp("Put", k0, v), coll.MkOp("SetMax", reflect.ValueOf(1))})
		}
		return out
	case "linkedset", "set":
		var grow []coll.Op
		for _, k := range coll.FillerKeys(d, growFill) {
			grow = append(grow, coll.MkOp("Put", k))
		}
		out := [][]coll.Op{nil, {coll.MkOp("Put", k0)}, {coll.MkOp("Put", k0), coll.MkOp("Put", k1)}, grow}
		if hasMethod(d, "SetMax") {
			out = append(out, []coll.Op{coll.MkOp("Put", k0), coll.MkOp("SetMax", reflect.ValueOf(1))})
		}
		return out
	case "list":
		return [][]coll.Op{nil, {coll.MkOp("Add", reflect.ValueOf("e0"))}, {coll.MkOp("Add", reflect.ValueOf("e0")), coll.MkOp("Add", reflect.ValueOf("e1"))}}
	case "queue":
		return [][]coll.Op{nil, {coll.MkOp("Put", reflect.ValueOf("e0"))}}
	case "dqueue":
		return [][]coll.Op{nil, {coll.MkOp("Put1", reflect.ValueOf("e0"))}, {coll.MkOp("Put2", reflect.ValueOf("e0"))}}
	}
	return [][]coll.Op{nil}
}

// ---- self-deadlock ----------------------------------------------------------------------------------

type dlCase struct {
	desc    *coll.Desc
	prefill []coll.Op
	op      coll.Op
	// alias: the arguments of the receiver's own type are the receiver itself (m.PutAll(m)): a bulk
	// operation that holds the argument's lock while it calls a public method of the receiver
	// blocks on its own lock
	alias bool
}

func selfDeadlockCases(d *coll.Desc) []dlCase {
	var out []dlCase
	obj := d.New()
	pf := prefills(d)
	for _, m := range coll.ExportedMethods(obj) {
		if m.Name == "Get" && (d.Family == "queue" || d.Family == "dqueue") {
			// blocking get on an empty queue waits for a producer by design; covered by C11
		}
		sets := coll.ArgSets(d, obj, m, 2, 1)
		if sets == nil {
			continue
		}
		takesSelf := false
		for i := 1; i < m.Type.NumIn(); i++ {
			if m.Type.In(i) == reflect.TypeOf(obj) {
				takesSelf = true
			}
		}
		for ai, a := range sets {
			for _, p := range pf {
				out = append(out, dlCase{d, p, coll.MkOp(m.Name, a...), false})
				if takesSelf && ai == 0 {
					out = append(out, dlCase{d, p, coll.MkOp(m.Name, a...), true})
				}
			}
		}
	}
	// interface-valued structures may hold values of any type: with a stored value that Go cannot
	// compare (a slice), an operation that compares values panics at run time - inside its critical
	// section
	if d.ValT != nil && d.ValT.Kind() == reflect.Interface && d.KeyT != nil && (d.Family == "map" || d.Family == "linkedmap") {
		k0 := coll.KeysNZ(d, 1)[0]
		unc := reflect.ValueOf([]int{7})
		pf := []coll.Op{coll.MkOp("Put", k0, unc)}
		for _, m := range coll.ExportedMethods(obj) {
			takes := false
			for i := 1; i < m.Type.NumIn(); i++ {
				if m.Type.In(i) == d.ValT && !(i == 1 && m.Type.In(i) == d.KeyT) {
					takes = true
				}
			}
			if !takes {
				continue
			}
			sets := coll.ArgSets(d, obj, m, 1, 1)
			if len(sets) == 0 {
				continue
			}
			a := append([]reflect.Value{}, sets[0]...)
			for i := range a {
				if m.Type.In(i+1) == d.ValT && !(i == 0 && d.KeyT == d.ValT) {
					a[i] = unc
				}
			}
			o := coll.MkOp(m.Name, a...)
			o.Label = m.Name + "(… a slice value …)"
			out = append(out, dlCase{d, pf, o, false})
		}
	}
	return out
}

func runSelfDeadlock(c *evid.Ctx, dc dlCase) {
	var res string
	sc := func(x *sched.Exec) func() string {
		obj := dc.desc.New()
		for _, o := range dc.prefill {
			coll.Apply(obj, o)
		}
		op := dc.op
		if dc.alias {
			op.Args = append([]reflect.Value{}, op.Args...)
			for i, a := range op.Args {
				if a.Type() == reflect.TypeOf(obj) {
					op.Args[i] = reflect.ValueOf(obj)
				}
			}
			op.Label = op.Method + "(the receiver itself)"
		}
		// fresh args for stateful arguments (streams)
		x.Spawn("T0", func() {
			res = coll.Apply(obj, op)
			// whatever the operation did - returned or panicked (Apply recovers, as the library's
			// comments ask callers to) - the structure's lock must be free again
			// (Clear takes the lock in every type; Size does not in the hash maps)
			for _, follow := range []string{"Clear", "Size"} {
				if hasMethod(dc.desc, follow) {
					coll.Apply(obj, coll.MkOp(follow))
					break
				}
			}
		})
		return func() string {
			if x.Deadlock {
				for _, b := range x.Blocked {
					if strings.HasSuffix(b, "@lock") {
						return "self-deadlock"
					}
				}
				return "" // waiting for another party (blocking Get on an empty queue)
			}
			if x.HitStepCap {
				return "step cap"
			}
			return ""
		}
	}
	x, verdict := dfs.RunOne(sc, nil, 200000, false)
	if os.Getenv("VERIF_DEBUG") != "" && strings.Contains(dc.op.Label, "slice value") {
		if f, err := os.OpenFile(os.Getenv("VERIF_DEBUG"), os.O_APPEND|os.O_CREATE|os.O_WRONLY, 0644); err == nil {
			fmt.Fprintf(f, "C10 dl %s.%s prefill=%d res=%q verdict=%q deadlock=%v blocked=%v\n", dc.desc.Name, dc.op.Label, len(dc.prefill), res, verdict, x.Deadlock, x.Blocked)
			f.Close()
		}
	}
	c.Count("selfdeadlock_runs", 1)
	c.Count("transitions", int64(x.Steps))
	if verdict == "self-deadlock" {
		key := fmt.Sprintf("C10:%s.%s:self-deadlock", dc.desc.Name, dc.op.Method)
		lbl := dc.op.Label
		if dc.alias {
			lbl = dc.op.Method + "(the receiver itself)"
		}
		c.Violation(key, fmt.Sprintf("%s.%s blocks forever on the instance's own lock (single thread, prefill %d elements, blocked at %v)", dc.desc.Name, lbl, len(dc.prefill), x.Blocked),
			map[string]interface{}{"engine": "E1", "kind": "self-deadlock", "type": dc.desc.Name, "op": dc.op.Label, "prefill": len(dc.prefill)})
	} else if verdict != "" {
		key := fmt.Sprintf("C10:%s.%s:%s", dc.desc.Name, dc.op.Method, verdict)
		c.Violation(key, fmt.Sprintf("%s.%s: %s", dc.desc.Name, dc.op.Label, verdict), nil)
	}
	_ = res
}

// ---- whole-structure operations against a mutator ------------------------------------------------------------

// wholeCases pairs every public method that is not a point operation (sort, key-array, to-array,
// to-string, contains-value, enumerations ...) with one mutator of each kind on a small start state.
func wholeCases(d *coll.Desc) []*scenario {
	var out []*scenario
	obj := d.New()
	muts := pick(opsFor(d, 2, 1, mutators), 4)
	pfs := prefills(d)
	pf := pfs[len(pfs)-1]
	if len(pfs) > 2 {
		pf = pfs[2] // two entries
	}
	for _, m := range coll.ExportedMethods(obj) {
		if pointOps[m.Name] || m.Name == "Get" && (d.Family == "queue" || d.Family == "dqueue") || m.Name == "ToObject" || m.Name == "ToBytes" {
			continue // (the serialisation methods take a stream argument that one execution uses up)
		}
		sets := coll.ArgSets(d, obj, m, 2, 1)
		if len(sets) == 0 {
			continue
		}
		w := coll.MkOp(m.Name, sets[0]...)
		for _, mu := range muts {
			out = append(out, &scenario{desc: d, ctor: 0, prefill: pf, threads: [][]coll.Op{{mu}, {w}}})
		}
	}
	return out
}

// runWhole: every schedule (preemption bound 2) of a mutator against a whole-structure operation: no
// thread may end blocked on a lock of the structure (the property asks nothing else of these
// operations under concurrency; enumerations are walked outside the lock by design).
func runWhole(c *evid.Ctx, s *scenario) {
	alone := ""
	func() {
		defer func() {
			if r := recover(); r != nil {
				alone = "panic"
			}
		}()
		if blocked, _ := dfs.Solo(func() {
			if r := coll.Apply(s.build(), s.threads[1][0]); strings.HasPrefix(r, "panic:") {
				alone = "panic"
			}
		}, 200000); blocked {
			alone = "blocked"
		}
	}()
	if alone != "" {
		return // judged by the self-deadlock pass / outside the property (ToString panics)
	}
	sc := func(x *sched.Exec) func() string {
		obj := s.build()
		res := make([]string, 2)
		for ti := range s.threads {
			ti := ti
			x.Spawn(fmt.Sprintf("T%d", ti), func() {
				x.Yield(sched.Op{Kind: "op:" + s.threads[ti][0].Label})
				res[ti] = coll.Apply(obj, s.threads[ti][0])
			})
		}
		return func() string {
			if x.Deadlock {
				for _, b := range x.Blocked {
					if strings.HasSuffix(b, "lock") {
						return "blocked-forever: " + strings.Join(x.Blocked, ",")
					}
				}
			}
			if x.HitStepCap {
				return "livelock: step cap hit"
			}
			// what a whole-structure operation returns (or whether its unlocked walk trips over a
			// concurrent change) is not defined by the property; only that it comes back
			_ = res
			return ""
		}
	}
	vsync.YieldAfterLock = true // let the other thread run while a lock is held (see vsync)
	st, viols, err := dfs.Explore(sc, dfs.Config{Preemptions: 2, Faults: 0, StepCap: 20000}, false)
	vsync.YieldAfterLock = false
	if err != nil {
		c.Violation("C10:harness-error", err.Error()+" in "+s.String(), nil)
		return
	}
	c.Count("whole_operation_scenarios", 1)
	c.Count("states", int64(st.Executions))
	c.Count("transitions", int64(st.Steps))
	if len(viols) > 0 {
		v := viols[0]
		kind := strings.SplitN(v.Verdict, ":", 2)[0]
		c.Violation(fmt.Sprintf("C10:%s.%s:%s", s.desc.Name, s.threads[1][0].Method, kind), fmt.Sprintf("%s — %s — schedule %v", s.String(), v.Verdict, v.Choices),
			map[string]interface{}{"engine": "E1", "scenario": s.String(), "choices": v.Choices, "trace": v.Trace})
	}
}

// ---- main ---------------------------------------------------------------------------------------

type task struct {
	kind string // "dl" | "lin" | "whole"
	dl   dlCase
	sc   *scenario
	cfg  dfs.Config
}

// buildTasks enumerates the task list; only the tasks whose index keep() accepts are materialised
// and handed to visit at once (a worker runs its own share as it is generated: the thorough list is far
// too large to be held in memory, let alone sixteen times); visit returning false ends the visiting; n
// is the length of the whole list.
func buildTasks(thorough bool, keep func(i int) bool, visit func(i int, t task) bool) (n int) {
	stopped := false
	add := func(mk func() task) {
		if !stopped && keep(n) {
			if !visit(n, mk()) {
				stopped = true
			}
		}
		n++
	}
	for _, d := range coll.Descs {
		for _, dc := range selfDeadlockCases(d) {
			dc := dc
			add(func() task { return task{kind: "dl", dl: dc} })
		}
		for _, ws := range wholeCases(d) {
			ws := ws
			add(func() task { return task{kind: "whole", sc: ws} })
		}
		all := opsFor(d, 2, 1, nil)
		muts := opsFor(d, 2, 1, mutators)
		pfs := prefills(d)
		ctors := []int{0}
		if d.Family == "queue" || d.Family == "dqueue" {
			ctors = []int{0, 1, 2}
		}
		for _, ci := range ctors {
			for _, pf := range pfs {
				// (a) every ordered pair of point operations, all interleavings
				for _, a := range all {
					for _, b := range all {
						if !mutators[a.Method] && !mutators[b.Method] {
							continue
						}
						a, b, pf, ci := a, b, pf, ci
						add(func() task {
							return task{kind: "lin", sc: &scenario{desc: d, ctor: ci, prefill: pf, threads: [][]coll.Op{{a}, {b}}}, cfg: dfs.Config{Preemptions: -1, Faults: 0, StepCap: 5000}}
						})
					}
				}
				if len(pf) > 2 {
					continue // the filled table takes part in the pair scenarios only
				}
				// (b) 2 threads x 2 mutators
				pb := 2
				if thorough {
					pb = -1
				}
				m2 := muts
				if !thorough && len(m2) > 8 {
					m2 = pick(m2, 8)
				}
				for _, a := range m2 {
					for _, b := range m2 {
						for _, c2 := range m2 {
							for _, e := range m2 {
								if !thorough && (a.Method == c2.Method || b.Method == e.Method) && a.Label != c2.Label {
									continue
								}
								a, b, c2, e, pf, ci, pb := a, b, c2, e, pf, ci, pb
								add(func() task {
									return task{kind: "lin", sc: &scenario{desc: d, ctor: ci, prefill: pf, threads: [][]coll.Op{{a, b}, {c2, e}}}, cfg: dfs.Config{Preemptions: pb, Faults: 0, StepCap: 5000}}
								})
							}
						}
					}
				}
				// (c) 3 threads x 1 mutator
				m3 := muts
				lim := 6
				if thorough {
					lim = 10
				}
				if len(m3) > lim {
					m3 = pick(m3, lim)
				}
				pc := 2
				if thorough {
					pc = 3
				}
				for _, a := range m3 {
					for _, b := range m3 {
						for _, c3 := range m3 {
							a, b, c3, pf, ci, pc := a, b, c3, pf, ci, pc
							add(func() task {
								return task{kind: "lin", sc: &scenario{desc: d, ctor: ci, prefill: pf, threads: [][]coll.Op{{a}, {b}, {c3}}}, cfg: dfs.Config{Preemptions: pc, Faults: 0, StepCap: 5000}}
							})
						}
					}
				}
			}
		}
	}
	return n
}

// pick keeps n operations with distinct method names first (deterministic).
func pick(ops []coll.Op, n int) []coll.Op {
	seen := map[string]bool{}
	var out, rest []coll.Op
	for _, o := range ops {
		if !seen[o.Method] {
			seen[o.Method] = true
			out = append(out, o)
		} else {
			rest = append(rest, o)
		}
	}
	out = append(out, rest...)
	if len(out) > n {
		out = out[:n]
	}
	return out
}

// noneMethods return a stored value (or removed key) or one of the type's "nothing" values; the
// property's sequential model does not distinguish nil, "" and 0 as "nothing" (DESIGN A.1), and the
// C10 alphabets contain no zero key and no zero value, so these are folded into one token.
var noneMethods = map[string]bool{"Put": true, "PutFirst": true, "PutLast": true, "Add": true, "AddFirst": true, "AddLast": true, "AddNoOver": true, "AddIfExist": true,
	"Get": true, "GetLRU": true, "Remove": true, "RemoveFirst": true, "RemoveLast": true, "GetFirstValue": true, "GetLastValue": true, "GetFirstKey": true, "GetLastKey": true, "GetFirst": true, "GetLast": true}

func norm(method, res string) string {
	if noneMethods[method] && (res == "nil" || res == `""` || res == "0") {
		return "∅"
	}
	return res
}

func Run(c *evid.Ctx) {
	coll.KeyGen = coll.KeysNZ
	c.Assume("linearizability pass: code between two synchronisation operations runs atomically (sound for data-race-free code); the race clause is decided by the race pass: every schedule of every pair of point operations (preemption bound 2) in a -race build whose detector sees only the happens-before edges of the library's own synchronisation")
	c.Assume("the specification of a scenario is the real type run sequentially in every order of whole operations; sequential correctness itself is C09/C11/C12")
	// The thorough tier iterates the bounds: the quick tier's task list first (complete), then the
	// larger one (unbounded preemptions for 2x2, three preemptions for 3x1, no sampling of mutators)
	// under a wall-clock budget per worker; what the budget cuts off is reported as non-exhaustive.
	w := shard.Worker()
	keep := func(i int) bool { return w != nil && i%w.N == w.I }
	if w != nil {
		outcomes := 0
		var deadline time.Time
		if c.Thorough() {
			deadline = time.Now().Add(30 * time.Minute)
		}
		larger, left := false, 0
		only := os.Getenv("VERIF_C10_KINDS") // debugging aid: run only these task kinds
		run := func(i int, t task) bool {
			if only != "" && !strings.Contains(only, t.kind) {
				return true
			}
			if larger && !deadline.IsZero() {
				if time.Now().After(deadline) {
					left++
					return true // keep counting what is left
				}
				t.cfg.Deadline = deadline
			}
			switch t.kind {
			case "dl":
				runSelfDeadlock(c, t.dl)
			case "whole":
				runWhole(c, t.sc)
			case "lin":
				st, v, outs, err := t.sc.check(t.cfg)
				if err != nil {
					c.Violation("C10:harness-error", err.Error()+" in "+t.sc.String(), nil)
					return true
				}
				if t.sc.seqBlocked {
					c.Count("scenarios_skipped_sequentially_blocking", 1)
					return true
				}
				if st.Capped {
					c.NotExhaustive("time budget hit inside " + t.sc.String())
				}
				c.Count("scenarios", 1)
				c.Count("states", int64(st.Executions))
				c.Count("transitions", int64(st.Steps))
				c.Count("choice_points", int64(st.Points))
				c.Count("deadlocks_seen", int64(st.Deadlocks))
				outcomes += len(outs)
				if len(outs) > 1 {
					c.Count("scenarios_with_more_than_one_outcome", 1)
				}
				if i%997 == 0 {
					c.Sample(map[string]interface{}{"scenario": t.sc.String(), "schedules": st.Executions, "distinct_result_vectors": len(outs), "preemption_bound": t.cfg.Preemptions})
				}
				if v != nil {
					key := violKey(t.sc, v.Verdict)
					c.Violation(key, fmt.Sprintf("%s — %s — schedule %v", t.sc.String(), v.Verdict, v.Choices),
						map[string]interface{}{"engine": "E1", "scenario": t.sc.String(), "choices": v.Choices, "trace": v.Trace, "verdict": v.Verdict})
				}
			}
			return true
		}
		buildTasks(false, keep, run)
		if c.Thorough() {
			larger = true
			n2 := buildTasks(true, keep, run)
			if left > 0 {
				c.NotExhaustive(fmt.Sprintf("thorough tier: worker %d stopped at its time budget with %d of its %d tasks of the larger bound left (the quick tier's tasks are complete)", w.I, left, n2/w.N))
			}
		}
		c.Count("distinct_outcomes", int64(outcomes))
		return
	}
	never := func(int) bool { return false }
	nAll := buildTasks(false, never, nil)
	if c.Thorough() {
		nAll += buildTasks(true, never, nil)
	}
	c.Cov["tasks"] = nAll
	shard.Spawn(c, 16, true)
	// the race clause: the same kind of schedule enumeration in the -race build (race.go)
	shard.SpawnRace(c, 16)
	c.Cov["traces_validated_against_impl"] = c.Counter("states")
	c.Cov["rule"] = "states = complete executions (schedules) of a scenario on the real type; transitions = scheduler steps; every execution's result vector and final canonical heap must equal those of a real-time-consistent sequential order of the same operations on the real type"
}

// resEq compares two formatted results; a list node that has meanwhile been removed (and emptied)
// matches any node.
func resEq(a, b string) bool {
	if a == b {
		return true
	}
	return strings.HasPrefix(a, "node:") && strings.HasPrefix(b, "node:") && (a == "node:removed" || b == "node:removed")
}

func violKey(s *scenario, verdict string) string {
	var ms []string
	for _, t := range s.threads {
		for _, o := range t {
			ms = append(ms, o.Method)
		}
	}
	sort.Strings(ms)
	kind := "not-linearizable"
	if strings.HasPrefix(verdict, "deadlock") {
		kind = "deadlock"
	} else if strings.HasPrefix(verdict, "thread") {
		kind = "panic"
	} else if strings.HasPrefix(verdict, "panic-in:") {
		return fmt.Sprintf("C10:%s:%s", s.desc.Name, strings.SplitN(verdict, " :: ", 2)[0])
	}
	return fmt.Sprintf("C10:%s:%s:%s", s.desc.Name, kind, strings.Join(uniq(ms), "+"))
}

func uniq(in []string) []string {
	var out []string
	for i, s := range in {
		if i == 0 || s != in[i-1] {
			out = append(out, s)
		}
	}
	return out
}
