// Package c20 decides C20: value equality and comparison are total and lawful — every pair and
// triple of a universe of values of all types and shapes is evaluated (E3).
package c20

import (
	"fmt"
	"math"
	"reflect"
	"sort"
	"strings"
	"sync"
	"sync/atomic"

	"verif/engine/evid"
	"verif/props/vals"

	gio "github.com/whatap/golib/io"
	"github.com/whatap/golib/lang/value"
)

type item struct {
	s    *vals.Spec
	v    value.Value
	nan  bool
	name string
}

func universe(thorough bool) []*item {
	var specs []*vals.Spec
	specs = append(specs, vals.Scalars(1)...)
	// NaN payloads are part of the universe for totality only
	for _, s := range vals.Scalars(2) {
		if vals.IsNaN(s) {
			specs = append(specs, s)
		}
	}
	// values far apart (a comparator written as a subtraction wraps on these): scalars and arrays whose
	// first differing element is more than half the type's range away from the other's
	for _, v := range []int64{math.MinInt32, -2000000000, -1, 0, 1, 2000000000, math.MaxInt32} {
		specs = append(specs, &vals.Spec{T: vals.TInt, I: v}, &vals.Spec{T: vals.THash, I: v},
			&vals.Spec{T: vals.TAI32, I32s: []int32{int32(v)}}, &vals.Spec{T: vals.TAI32, I32s: []int32{7, int32(v)}})
	}
	for _, v := range []int64{math.MinInt64, -6000000000000000000, -1, 0, 1, 6000000000000000000, math.MaxInt64} {
		specs = append(specs, &vals.Spec{T: vals.TLong, I: v}, &vals.Spec{T: vals.TDec, I: v},
			&vals.Spec{T: vals.TAI64, I64s: []int64{v}}, &vals.Spec{T: vals.TAI64, I64s: []int64{7, v}})
	}
	for _, f := range []float32{float32(math.Inf(-1)), -math.MaxFloat32, -1, 0, 1, math.MaxFloat32, float32(math.Inf(1))} {
		specs = append(specs, &vals.Spec{T: vals.TAF32, F32s: []float32{f}}, &vals.Spec{T: vals.TAF32, F32s: []float32{7, f}})
	}
	// integers that differ but convert to the same float64 (an order decided on a converted value
	// disagrees with an equality decided on the exact one)
	for _, v := range []int64{1 << 53, 1<<53 + 1, 1 << 62, 1<<62 + 100, -(1 << 53), -(1<<53 + 1)} {
		specs = append(specs, &vals.Spec{T: vals.TLong, I: v}, &vals.Spec{T: vals.TDec, I: v},
			&vals.Spec{T: vals.TLSum, I: v, Count: 3, MinI: 1, MaxI: 6}, &vals.Spec{T: vals.TAI64, I64s: []int64{v}})
	}
	// container elements: ordinary values and the values the typed accessors answer for "not there /
	// not of that type" (the empty text, zero) - an element that IS the default must not be taken for
	// an absent or differently typed one
	r := []*vals.Spec{{T: vals.TNull}, {T: vals.TDec, I: 1}, {T: vals.TDec, I: 2}, {T: vals.TText, S: "a"}, {T: vals.TBool, B: true}, {T: vals.TText, S: ""}, {T: vals.TDec, I: 0}}
	if thorough {
		r = append(r, &vals.Spec{T: vals.TBlob, Nil: true}, &vals.Spec{T: vals.TBlob, Bytes: []byte{}}, &vals.Spec{T: vals.TFlt, F32: 1})
	}
	// lists of width <= 2
	specs = append(specs, vals.List())
	for _, a := range r {
		specs = append(specs, vals.List(a))
		for _, b := range r {
			specs = append(specs, vals.List(a, b))
		}
	}
	// maps with equal sizes but different key sets and insertion orders
	specs = append(specs, vals.Map(nil), vals.IMap(nil))
	for _, a := range r {
		specs = append(specs, vals.Map([]string{"x"}, a), vals.Map([]string{"y"}, a), vals.IMap([]int32{1}, a), vals.IMap([]int32{2}, a))
		for _, b := range r {
			specs = append(specs, vals.Map([]string{"x", "y"}, a, b), vals.Map([]string{"y", "x"}, a, b), vals.Map([]string{"x", "z"}, a, b))
			specs = append(specs, vals.IMap([]int32{1, 2}, a, b), vals.IMap([]int32{2, 1}, a, b), vals.IMap([]int32{1, 3}, a, b))
		}
	}
	// nested representatives
	specs = append(specs, vals.List(vals.List()), vals.List(vals.Map(nil)), vals.Map([]string{"x"}, vals.List(r[1])), vals.Map([]string{"x"}, vals.List(r[2])),
		vals.IMap([]int32{1}, vals.Map([]string{"x"}, r[1])), vals.List(vals.IMap([]int32{1}, r[3])))
	var out []*item
	for _, s := range specs {
		out = append(out, &item{s: s, v: vals.Build(s), nan: vals.IsNaN(s), name: s.String()})
	}
	// payloads that are views of ONE backing array (as cut from a reused buffer) next to independent
	// copies of the same contents: equality and order are about contents, not about storage
	bb := []byte{9, 8, 7, 6, 5, 4}
	ii := []int32{9, 8, 7, 6}
	ll := []int64{9, 8, 7, 6}
	ff := []float32{9, 8, 7, 6}
	tt := []string{"9", "8", "7", "6"}
	for _, n := range []int{1, 2, 4} {
		for _, shared := range []bool{true, false} {
			tag := "copy"
			if shared {
				tag = "view of a shared buffer"
			}
			b, i, l, f, t := bb[:n], ii[:n], ll[:n], ff[:n], tt[:n]
			if !shared {
				b, i, l, f, t = append([]byte{}, b...), append([]int32{}, i...), append([]int64{}, l...), append([]float32{}, f...), append([]string{}, t...)
			}
			out = append(out,
				&item{s: &vals.Spec{T: vals.TBlob, Bytes: b}, v: value.NewBlobValue(b), name: fmt.Sprintf("blob(%x, %s)", b, tag)},
				&item{s: &vals.Spec{T: vals.TAI32, I32s: i}, v: value.NewIntArray(i), name: fmt.Sprintf("int[]%v(%s)", i, tag)},
				&item{s: &vals.Spec{T: vals.TAI64, I64s: l}, v: value.NewLongArray(l), name: fmt.Sprintf("long[]%v(%s)", l, tag)},
				&item{s: &vals.Spec{T: vals.TAF32, F32s: f}, v: value.NewFloatArray(f), name: fmt.Sprintf("float[]%v(%s)", f, tag)},
				&item{s: &vals.Spec{T: vals.TATxt, Strs: t}, v: value.NewTextArray(t), name: fmt.Sprintf("text[]%v(%s)", t, tag)})
		}
	}
	return out
}

func typeOf(v value.Value) string {
	return strings.TrimPrefix(reflect.TypeOf(v).String(), "*value.")
}

func sgn(x int) int {
	if x < 0 {
		return -1
	} else if x > 0 {
		return 1
	}
	return 0
}

type result struct {
	eq, cmp  int8 // eq: 0 false 1 true 2 panic ; cmp: sign, or 2 = panic
	eqPanic  string
	cmpPanic string
}

// keyRel classifies two (or three) map values by their key sequences, so that a known finding
// about maps with different key sets cannot hide a defect on maps with identical keys.
func keyRel(items ...*item) string {
	allMaps := true
	for _, it := range items {
		if it.s.T != vals.TMap && it.s.T != vals.TIMap {
			allMaps = false
		}
	}
	if !allMaps {
		return ""
	}
	seq := func(it *item) string { return fmt.Sprint(it.s.Keys, it.s.IKeys) }
	set := func(it *item) string {
		k := append([]string{}, it.s.Keys...)
		sort.Strings(k)
		ik := append([]int32{}, it.s.IKeys...)
		sort.Slice(ik, func(a, b int) bool { return ik[a] < ik[b] })
		return fmt.Sprint(k, ik)
	}
	sameSeq, sameSet := true, true
	for _, it := range items[1:] {
		if seq(it) != seq(items[0]) {
			sameSeq = false
		}
		if set(it) != set(items[0]) {
			sameSet = false
		}
	}
	switch {
	case sameSeq:
		return ":same-keys"
	case sameSet:
		return ":same-key-set-other-order"
	}
	return ":different-key-sets"
}

func isContainer(t byte) bool { return t == vals.TList || t == vals.TMap || t == vals.TIMap }

func Run(c *evid.Ctx) {
	u := universe(c.Thorough())
	n := len(u)
	c.Cov["universe"] = n
	var evals int64
	// pair table
	eq := make([][]int8, n)
	cmp := make([][]int8, n)
	for i := range eq {
		eq[i] = make([]int8, n)
		cmp[i] = make([]int8, n)
	}
	viol := func(recv *item, law, msg string, replay map[string]interface{}) {
		c.Violation(fmt.Sprintf("C20:%s:%s", typeOf(recv.v), law), msg, replay)
	}
	var wg sync.WaitGroup
	for i := 0; i < n; i++ {
		wg.Add(1)
		go func(i int) {
			defer wg.Done()
			for j := 0; j < n; j++ {
				func() {
					defer func() {
						if r := recover(); r != nil {
							eq[i][j] = 2
							viol(u[i], "Equals:panic", fmt.Sprintf("%s .Equals( %s ) panicked: %v", u[i].name, u[j].name, r), map[string]interface{}{"x": u[i].name, "y": u[j].name})
						}
					}()
					if u[i].v.Equals(u[j].v) {
						eq[i][j] = 1
					}
				}()
				func() {
					defer func() {
						if r := recover(); r != nil {
							cmp[i][j] = 2
							viol(u[i], "CompareTo:panic", fmt.Sprintf("%s .CompareTo( %s ) panicked: %v", u[i].name, u[j].name, r), map[string]interface{}{"x": u[i].name, "y": u[j].name})
						}
					}()
					cmp[i][j] = int8(sgn(u[i].v.CompareTo(u[j].v)))
				}()
				atomic.AddInt64(&evals, 2)
			}
		}(i)
	}
	wg.Wait()
	// unary laws
	for i, x := range u {
		if x.nan {
			continue
		}
		if eq[i][i] == 0 {
			viol(x, "Equals:reflexive", fmt.Sprintf("%s is not Equals to itself", x.name), map[string]interface{}{"x": x.name})
		}
		if cmp[i][i] != 0 && cmp[i][i] != 2 {
			viol(x, "CompareTo:reflexive", fmt.Sprintf("%s .CompareTo(itself) = %d", x.name, cmp[i][i]), map[string]interface{}{"x": x.name})
		}
		// equality with the decoded copy of its own encoding
		func() {
			defer func() {
				if r := recover(); r != nil {
					viol(x, "Equals:decoded-copy:panic", fmt.Sprintf("%s: encode/decode/Equals panicked: %v", x.name, r), nil)
				}
			}()
			out := gio.NewDataOutputX()
			value.WriteValue(out, x.v)
			d := value.ReadValue(gio.NewDataInputX(out.ToByteArray()))
			evals += 2
			if !x.v.Equals(d) || !d.Equals(x.v) {
				viol(x, "Equals:decoded-copy", fmt.Sprintf("%s is not Equals to the result of decoding its own encoding", x.name), map[string]interface{}{"x": x.name})
			}
			if r := x.v.CompareTo(d); r != 0 && !isContainer(x.s.T) {
				viol(x, "CompareTo:decoded-copy", fmt.Sprintf("%s .CompareTo(decoded copy) = %d", x.name, r), map[string]interface{}{"x": x.name})
			}
		}()
	}
	// the decoded copies of all values, alive at the same time, obey the same tables as the originals:
	// a decoded value is a value of its own (decoding another one afterwards must not change it), and
	// equality/order of two decoded values is that of the values they were decoded from
	ds := make([]value.Value, n)
	for i, x := range u {
		func() {
			defer func() { recover() }() // judged above (decoded-copy:panic)
			out := gio.NewDataOutputX()
			value.WriteValue(out, x.v)
			ds[i] = value.ReadValue(gio.NewDataInputX(out.ToByteArray()))
		}()
	}
	for i, x := range u {
		if x.nan || ds[i] == nil {
			continue
		}
		func() {
			defer func() {
				if r := recover(); r != nil {
					viol(x, "Equals:decoded-copies-together:panic", fmt.Sprintf("%s: %v", x.name, r), nil)
				}
			}()
			evals++
			if !x.v.Equals(ds[i]) || !ds[i].Equals(x.v) {
				viol(x, "Equals:decoded-copy-changed-by-later-decodes", fmt.Sprintf("%s equalled the decoding of its encoding when it was decoded, and no longer does after the other %d values of the universe were decoded", x.name, n-1), map[string]interface{}{"x": x.name})
				return
			}
			for j, y := range u {
				if y.nan || ds[j] == nil || eq[i][j] == 2 || cmp[i][j] == 2 {
					continue
				}
				evals += 2
				if e := ds[i].Equals(ds[j]); e != (eq[i][j] == 1) {
					viol(x, "Equals:decoded-copies-together", fmt.Sprintf("Equals(%s, %s)=%v, but for their decoded copies (both alive) it is %v", x.name, y.name, eq[i][j] == 1, e), map[string]interface{}{"x": x.name, "y": y.name})
					return
				}
				if r := int8(sgn(ds[i].CompareTo(ds[j]))); r != cmp[i][j] {
					viol(x, "CompareTo:decoded-copies-together", fmt.Sprintf("sign of CompareTo(%s, %s) is %d, but for their decoded copies (both alive) it is %d", x.name, y.name, cmp[i][j], r), map[string]interface{}{"x": x.name, "y": y.name})
					return
				}
			}
		}()
	}
	// pair laws
	typeSign := map[[2]byte]int8{}
	typeSignWho := map[[2]byte]string{}
	for i, x := range u {
		for j, y := range u {
			if x.nan || y.nan || eq[i][j] == 2 || eq[j][i] == 2 || cmp[i][j] == 2 || cmp[j][i] == 2 {
				continue
			}
			if eq[i][j] != eq[j][i] {
				viol(x, "Equals:symmetric", fmt.Sprintf("Equals(%s, %s)=%v but Equals(%s, %s)=%v", x.name, y.name, eq[i][j] == 1, y.name, x.name, eq[j][i] == 1), map[string]interface{}{"x": x.name, "y": y.name})
			}
			if cmp[i][j] != -cmp[j][i] {
				law := "CompareTo:sign-reversal" + keyRel(x, y)
				if x.s.T != y.s.T {
					law = "CompareTo:sign-reversal:cross-type"
				}
				viol(x, law, fmt.Sprintf("CompareTo(%s, %s) has sign %d but CompareTo(%s, %s) has sign %d", x.name, y.name, cmp[i][j], y.name, x.name, cmp[j][i]), map[string]interface{}{"x": x.name, "y": y.name})
			}
			if x.s.T == y.s.T && !isContainer(x.s.T) {
				if (cmp[i][j] == 0) != (eq[i][j] == 1) {
					viol(x, "CompareTo:zero-iff-equal", fmt.Sprintf("CompareTo(%s, %s) sign %d but Equals = %v", x.name, y.name, cmp[i][j], eq[i][j] == 1), map[string]interface{}{"x": x.name, "y": y.name})
				}
			}
			if x.s.T != y.s.T {
				if eq[i][j] == 1 {
					viol(x, "Equals:cross-type", fmt.Sprintf("values of different types are Equals: %s, %s", x.name, y.name), nil)
				}
				k := [2]byte{x.s.T, y.s.T}
				if cmp[i][j] == 0 {
					viol(x, "CompareTo:cross-type:zero", fmt.Sprintf("CompareTo(%s, %s) = 0 for values of different types", x.name, y.name), map[string]interface{}{"x": x.name, "y": y.name})
				} else if s, ok := typeSign[k]; ok && s != cmp[i][j] {
					viol(x, "CompareTo:cross-type:inconsistent", fmt.Sprintf("type order depends on the values: %s has sign %d, %s vs %s has sign %d", typeSignWho[k], s, x.name, y.name, cmp[i][j]), nil)
				} else if !ok {
					typeSign[k] = cmp[i][j]
					typeSignWho[k] = x.name + " vs " + y.name
				}
			}
		}
	}
	// triple laws (parallel over the first index)
	var triples int64
	var wg2 sync.WaitGroup
	for i := 0; i < n; i++ {
		wg2.Add(1)
		go func(i int) {
			defer wg2.Done()
			x := u[i]
			if x.nan {
				return
			}
			var local int64
			for j := 0; j < n; j++ {
				if u[j].nan {
					continue
				}
				for k := 0; k < n; k++ {
					if u[k].nan {
						continue
					}
					local++
					if eq[i][j] == 1 && eq[j][k] == 1 && eq[i][k] == 0 {
						viol(x, "Equals:transitive", fmt.Sprintf("Equals(%s,%s) and Equals(%s,%s) but not Equals(%s,%s)", x.name, u[j].name, u[j].name, u[k].name, x.name, u[k].name), nil)
					}
					a, b, cc := cmp[i][j], cmp[j][k], cmp[i][k]
					if a == 2 || b == 2 || cc == 2 {
						continue
					}
					if a > 0 && b > 0 && cc <= 0 || a < 0 && b < 0 && cc >= 0 {
						law := "CompareTo:transitive" + keyRel(x, u[j], u[k])
						if x.s.T != u[j].s.T || u[j].s.T != u[k].s.T {
							law = "CompareTo:transitive:cross-type"
						}
						viol(x, law, fmt.Sprintf("CompareTo signs (%s,%s)=%d (%s,%s)=%d but (%s,%s)=%d", x.name, u[j].name, a, u[j].name, u[k].name, b, x.name, u[k].name, cc), map[string]interface{}{"x": x.name, "y": u[j].name, "z": u[k].name})
					}
					if a == 0 && b != cc && x.s.T == u[j].s.T && !isContainer(x.s.T) {
						viol(x, "CompareTo:equal-substitution", fmt.Sprintf("CompareTo(%s,%s)=0 but they compare differently against %s (%d vs %d)", x.name, u[j].name, u[k].name, cc, b), nil)
					}
				}
			}
			atomic.AddInt64(&triples, local)
		}(i)
	}
	wg2.Wait()
	c.Count("evaluations", evals+triples)
	c.Count("pairs", int64(n*n))
	c.Count("triples", triples)
	types := map[byte]bool{}
	for _, x := range u {
		types[x.s.T] = true
	}
	c.Count("distinct_nontrivial", int64(n*n))
	c.Cov["value_types_in_universe"] = len(types)
	c.Cov["rule"] = "universe = scalar alphabets of all 20 type codes (nil vs empty payloads, summaries differing in one field) plus lists/maps/int-maps of width <= 2 with equal sizes but different keys, insertion orders and element types, plus nested representatives; every ordered pair is evaluated once (Equals and CompareTo on the real values), every triple is checked on the pair table; distinct_nontrivial = ordered pairs"
	c.Sample(map[string]string{"x": u[n/3].name, "y": u[2*n/3].name})
	c.Sample(map[string]string{"x": u[n-5].name, "y": u[n-9].name, "z": u[n-20].name})
	c.Assume("NaN payloads are in the universe for totality (no call may panic) but excluded from reflexivity, sign reversal and zero-iff-equal: the library compares floats with Go's == and <, for which NaN is unordered by IEEE definition, and the property's list of shapes does not name NaN")
	c.Assume("CompareTo==0 <=> Equals is required for non-container values only, as the property says 'for scalar values'")
}
