// Package c19 decides C19: calendar helpers agree with the standard calendar for 2000-2099 and the
// pattern format is the inverse of its parser (E3: every day of the century x boundary instants,
// every pattern up to a length bound, the clock as an environment answer).
package c19

import (
	"fmt"
	"strings"
	"sync"
	"sync/atomic"
	"time"

	"verif/engine/enum"
	"verif/engine/evid"

	"github.com/whatap/golib/util/dateutil"
	"github.com/whatap/golib/verifshim/vtime"
)

var base = time.Date(2000, 1, 1, 0, 0, 0, 0, time.UTC)

const dayMs = 86400000

func wdayIndex(s string) int {
	switch s {
	case "Mon":
		return 1
	case "Tue":
		return 2
	case "Wed":
		return 3
	case "Thr", "Thu":
		return 4
	case "Fri":
		return 5
	case "Sat":
		return 6
	case "Sun":
		return 0
	}
	return -1
}

type checker struct {
	c     *evid.Ctx
	evals int64
	note  string // ambient state the helpers must not depend on (appended to messages)
}

func (k *checker) viol(key, msg string) {
	k.c.Violation("C19:"+key, msg+k.note, map[string]interface{}{"engine": "E3", "detail": msg + k.note})
}

// instant checks every helper at one millisecond instant.
func (k *checker) instant(ms int64, full bool) {
	t := time.UnixMilli(ms).UTC()
	n := int64(0)
	eq := func(name, got, want string) {
		n++
		if got != want {
			k.viol(name, fmt.Sprintf("%s(%d) = %q, the calendar says %q (%s)", name, ms, got, want, t.Format(time.RFC3339Nano)))
		}
	}
	eq("DateTime", dateutil.DateTime(ms), t.Format("20060102 15:04:05"))
	eq("TimeStamp", dateutil.TimeStamp(ms), t.Format("20060102 15:04:05.000"))
	eq("Ymdhms", dateutil.Ymdhms(ms), t.Format("20060102150405"))
	if full {
		ymd := t.Format("20060102")
		eq("YYYYMMDD", dateutil.YYYYMMDD(ms), ymd)
		eq("HHMMSS", dateutil.HHMMSS(ms), t.Format("150405"))
		eq("HHMM", dateutil.HHMM(ms), t.Format("1504"))
		n++
		if w := wdayIndex(dateutil.WeekDay(ms)); w != int(t.Weekday()) {
			k.viol("WeekDay", fmt.Sprintf("WeekDay(%d) = %q, %s is a %s", ms, dateutil.WeekDay(ms), ymd, t.Weekday()))
		}
		n++
		sod := time.Date(t.Year(), t.Month(), t.Day(), 0, 0, 0, 0, time.UTC).UnixMilli()
		if g := dateutil.GetYmdTime(ymd); g != sod {
			k.viol("GetYmdTime", fmt.Sprintf("GetYmdTime(%q) = %d, start of that day is %d", ymd, g, sod))
		}
		rel := ms - base.UnixMilli()
		for _, u := range []struct {
			name string
			f    func(int64) int64
			step int64
		}{{"GetDateUnit", dateutil.GetDateUnit, dayMs}, {"GetFiveMinUnit", dateutil.GetFiveMinUnit, 300000}, {"GetMinUnit", dateutil.GetMinUnit, 60000}} {
			n++
			if g := u.f(ms); g != rel/u.step {
				k.viol(u.name, fmt.Sprintf("%s(%d) = %d, floor((t-base)/%d) = %d", u.name, ms, g, u.step, rel/u.step))
			}
		}
	}
	atomic.AddInt64(&k.evals, n)
}

var intraday = []int64{0, 1, 9, 10, 99, 100, 999, 59999, 60000, 299999, 300000, 35999999, 36000000, 45296789, 86399999}

// ---- pattern format / parse -----------------------------------------------------------------------

var letters = []rune{'y', 'm', 'd', 'H', 'M', 'S', 's'}
var literals = []string{"-", ":", " ", "T", "년"}

func patterns(maxLen int) []string {
	var out []string
	var rec func(cur []string, used map[rune]bool)
	rec = func(cur []string, used map[rune]bool) {
		if len(cur) > 0 {
			out = append(out, strings.Join(cur, ""))
		}
		if len(cur) == maxLen {
			return
		}
		for _, l := range letters {
			if used[l] {
				continue
			}
			used[l] = true
			rec(append(cur, string(l)), used)
			used[l] = false
		}
		for _, lit := range literals {
			rec(append(cur, lit), used)
		}
	}
	rec(nil, map[rune]bool{})
	return out
}

func fieldOf(t time.Time, l rune) int {
	switch l {
	case 'y':
		return t.Year()
	case 'm':
		return int(t.Month())
	case 'd':
		return t.Day()
	case 'H':
		return t.Hour()
	case 'M':
		return t.Minute()
	case 'S':
		return t.Second()
	}
	return int(t.UnixMilli() % 1000)
}

func validDate(y, m, d int) bool {
	t := time.Date(y, time.Month(m), d, 0, 0, 0, 0, time.UTC)
	return t.Year() == y && int(t.Month()) == m && t.Day() == d
}

func (k *checker) patternCases(maxLen int) (int, int) {
	pats := patterns(maxLen)
	loc := time.Local
	var instants []time.Time
	for _, d := range [][3]int{{2024, 2, 29}, {2024, 1, 31}, {2023, 12, 31}, {2000, 1, 1}, {2099, 12, 31}, {2023, 3, 5}, {2023, 11, 30}, {2024, 10, 9}} {
		for _, tm := range [][4]int{{0, 0, 0, 0}, {23, 59, 59, 999}, {9, 5, 7, 5}, {12, 34, 56, 50}, {1, 2, 3, 500}} {
			instants = append(instants, time.Date(d[0], time.Month(d[1]), d[2], tm[0], tm[1], tm[2], tm[3]*1000000, loc))
		}
	}
	nows := []time.Time{
		time.Date(2024, 3, 1, 10, 0, 0, 0, loc), time.Date(2024, 3, 28, 10, 0, 0, 0, loc), time.Date(2024, 3, 29, 10, 0, 0, 0, loc),
		time.Date(2024, 3, 30, 10, 0, 0, 0, loc), time.Date(2024, 3, 31, 23, 59, 59, 999000000, loc), time.Date(2023, 6, 15, 0, 0, 0, 0, loc),
	}
	// the clock is process-global: patterns run in parallel but every worker sets the same "now"
	// sequence, so "now" is iterated outside
	for _, now := range nows {
		vtime.SetVirtual(now)
		ch2 := make(chan string, 256)
		var wg2 sync.WaitGroup
		for w := 0; w < 16; w++ {
			wg2.Add(1)
			go func() {
				defer wg2.Done()
				for p := range ch2 {
					k.onePattern(p, instants, []time.Time{now})
				}
			}()
		}
		for _, p := range pats {
			ch2 <- p
		}
		close(ch2)
		wg2.Wait()
	}
	vtime.ClearVirtual()
	return len(pats), len(instants) * len(nows)
}

func (k *checker) onePattern(p string, instants []time.Time, nows []time.Time) {
	present := map[rune]bool{}
	for _, r := range p {
		for _, l := range letters {
			if r == l {
				present[r] = true
			}
		}
	}
	for _, now := range nows {
		for _, t := range instants {
			atomic.AddInt64(&k.evals, 1)
			s := dateutil.NewDateFormat(p).FormatTime(t)
			ms, err := dateutil.NewDateFormat(p).Parse(s)
			if err != nil {
				k.viol("DateFormat:parse-error", fmt.Sprintf("pattern %q: Parse(FormatTime(%s)=%q) failed: %v", p, t.Format(time.RFC3339Nano), s, err))
				continue
			}
			r := time.UnixMilli(ms).In(t.Location())
			for _, l := range letters {
				if !present[l] {
					continue
				}
				if fieldOf(r, l) != fieldOf(t, l) {
					// which fields did the parser take from the clock, and is the assembled date valid?
					y, m, d := t.Year(), int(t.Month()), t.Day()
					if !present['y'] {
						y = now.Year()
					}
					if !present['m'] {
						m = int(now.Month())
					}
					if !present['d'] {
						d = now.Day()
					}
					key := "DateFormat:field-" + string(l)
					if !validDate(y, m, d) {
						key = "DateFormat:rollover-from-clock-fields"
					}
					k.viol(key, fmt.Sprintf("pattern %q at clock %s: FormatTime(%s) = %q parses to %s: field %q is %d, expected %d", p, now.Format("2006-01-02T15:04:05.000"), t.Format("2006-01-02T15:04:05.000"), s, r.Format("2006-01-02T15:04:05.000"), string(l), fieldOf(r, l), fieldOf(t, l)))
					break
				}
			}
		}
	}
}

func Run(c *evid.Ctx) {
	k := &checker{c: c}
	start := base.UnixMilli()
	days := int64(36525)
	// every day of the century x boundary instants within the day
	enum.ParallelRange(uint64(days), func(lo, hi uint64) {
		for d := lo; d < hi; d++ {
			for _, off := range intraday {
				k.instant(start+int64(d)*dayMs+off, true)
			}
			// both sides of the day border for the unit functions
			k.instant(start+int64(d)*dayMs+dayMs-1, true)
		}
	})
	c.Count("days", days)
	// The helpers take the instant as an argument: what they answer for it does not depend on the
	// package's server-time correction (SetDelta / SetServerTime), which only moves Now(). Every day of
	// the century again, at the instants within |delta| of the day border, under four corrections.
	for _, delta := range []int64{1500, -1500, dayMs, -3600000} {
		dateutil.SetDelta(delta)
		k.note = fmt.Sprintf(" [with the server-time correction SetDelta(%d) installed]", delta)
		ad := delta
		if ad < 0 {
			ad = -ad
		}
		enum.ParallelRange(uint64(days), func(lo, hi uint64) {
			for d := lo; d < hi; d++ {
				for _, off := range []int64{0, 1, ad - 1, ad, ad + 1, dayMs - ad - 1, dayMs - ad, dayMs - ad + 1, dayMs - 1} {
					if off >= 0 && off < dayMs {
						k.instant(start+int64(d)*dayMs+off, true)
					}
				}
			}
		})
	}
	dateutil.SetDelta(0)
	k.note = ""
	if c.Thorough() {
		// every second of the century
		secs := uint64(days * 86400)
		enum.ParallelRange(secs, func(lo, hi uint64) {
			for s := lo; s < hi; s++ {
				k.instant(start+int64(s)*1000, s%60 == 0)
				if s%60 == 0 {
					if s > 0 { // the millisecond before the century starts is outside the property's range
						k.instant(start+int64(s)*1000-1, true)
					}
					k.instant(start+int64(s)*1000+1, false)
				}
			}
		})
		c.Count("seconds", int64(secs))
	}
	pl := 4
	if c.Thorough() {
		pl = 5
	}
	np, ni := k.patternCases(pl)
	c.Count("patterns", int64(np))
	c.Cov["pattern_cases_per_pattern"] = ni
	c.Count("evaluations", k.evals)
	c.Count("distinct_nontrivial", k.evals-1)
	c.Cov["rule"] = "one evaluation = one helper applied to one distinct millisecond instant and compared with time.Time in UTC, or one (pattern, instant, clock) case formatted and parsed back; instants are 16 boundary offsets on every day of 2000-2099 (thorough: every second of the century); patterns are all sequences up to the stated length over {y,m,d,H,M,S,s} (each at most once) and five literal separators"
	c.Sample(map[string]interface{}{"instant_ms": start + 8834*dayMs + 5, "TimeStamp": dateutil.TimeStamp(start + 8834*dayMs + 5)})
	c.Sample(map[string]interface{}{"pattern": "y-m년d", "formatted": dateutil.NewDateFormat("y-m년d").FormatTime(time.Date(2024, 2, 29, 0, 0, 0, 0, time.UTC))})
	if !c.Thorough() {
		c.NotExhaustive("quick tier: 16 boundary instants per day; the thorough tier visits every second of the century")
	}
	c.Assume("fields absent from a pattern are taken from the clock by the parser and are not compared; the clock is an enumerated environment answer (days 1, 28-31, end of day)")
	c.Assume("the weekday is compared as a day-of-week index (the library spells Thursday 'Thr')")
}
