package c16

import (
	"fmt"
	"strconv"
)

// mapConf is a minimal config.Config for ApplyConfig.
type mapConf map[string]string

func (m mapConf) ApplyDefault()                      {}
func (m mapConf) GetConfFile() string                { return "" }
func (m mapConf) Destroy()                           {}
func (m mapConf) GetKeys() []string                  { return nil }
func (m mapConf) GetValue(key string) string         { return m[key] }
func (m mapConf) GetValueDef(key, def string) string { return orDef(m[key], def) }
func (m mapConf) GetBoolean(key string, def bool) bool {
	if v, err := strconv.ParseBool(m[key]); err == nil {
		return v
	}
	return def
}
func (m mapConf) GetInt(key string, def int) int32 {
	if v, err := strconv.Atoi(m[key]); err == nil {
		return int32(v)
	}
	return int32(def)
}
func (m mapConf) GetIntSet(key, def, deli string) []int32 { return nil }
func (m mapConf) GetLong(key string, def int64) int64 {
	if v, err := strconv.ParseInt(m[key], 10, 64); err == nil {
		return v
	}
	return def
}
func (m mapConf) GetStringArray(key string, def string, deli string) []string { return nil }
func (m mapConf) GetStringHashSet(key, def, deli string) []int32              { return nil }
func (m mapConf) GetStringHashCodeSet(key, def, deli string) []int32          { return nil }
func (m mapConf) GetFloat(key string, def float32) float32                    { return def }
func (m mapConf) SetValues(v *map[string]string)                              {}
func (m mapConf) ToString() string                                            { return fmt.Sprint(map[string]string(m)) }
func (m mapConf) String() string                                              { return m.ToString() }

func orDef(v, def string) string {
	if v == "" {
		return def
	}
	return v
}
