// Package c16 decides C16: log-sink zip batching emits every record exactly once, in order,
// decodably — sequential histories of Append/SendDirect over record sizes and settings (exhaustive,
// E2 style) and concurrent producers against the real background goroutine (E1), with a recording
// client in its consuming and retaining behaviours.
package c16

import (
	"bytes"
	"context"
	"fmt"
	"strings"
	"time"

	"verif/engine/dfs"
	"verif/engine/evid"
	"verif/engine/shard"
	"verif/props/coll"

	gio "github.com/whatap/golib/io"
	"github.com/whatap/golib/lang/pack"
	"github.com/whatap/golib/logsink/zip"
	wnet "github.com/whatap/golib/net"
	"github.com/whatap/golib/util/compressutil"
	"github.com/whatap/golib/verifshim/sched"
	"github.com/whatap/golib/verifshim/vtime"
)

// recorder is the TcpClient handed to the sender.
type recorder struct {
	retain   bool
	handed   []*pack.ZipPack // the very objects handed over
	snapshot [][]byte        // serialisation at hand-over
	zipMinAt []int           // compression threshold in force at hand-over (supplied by the harness)
	at       []int64         // (virtual) time of each hand-over
	curMin   func() int
}

func (r *recorder) Connect() error { return nil }
func (r *recorder) Close() error   { return nil }
func (r *recorder) Send(p pack.Pack, opts ...wnet.TcpClientOption) error {
	return r.SendFlush(p, false, opts...)
}
func (r *recorder) SendFlush(p pack.Pack, flush bool, opts ...wnet.TcpClientOption) error {
	z, ok := p.(*pack.ZipPack)
	if !ok {
		return fmt.Errorf("recorder: unexpected pack %T", p)
	}
	r.handed = append(r.handed, z)
	r.snapshot = append(r.snapshot, append([]byte{}, pack.ToBytesPack(z)...))
	m := 0
	if r.curMin != nil {
		m = r.curMin()
	}
	r.zipMinAt = append(r.zipMinAt, m)
	r.at = append(r.at, vtime.Now().UnixMilli())
	return nil
}

func mkRecord(id int, size int, t int64) *pack.LogSinkPack {
	l := pack.NewLogSinkPack()
	l.Category = "app"
	l.Time = t
	l.Line = int64(id)
	l.Content = fmt.Sprintf("r%03d:", id) + strings.Repeat("x", size)
	return l
}

func recordBytes(l *pack.LogSinkPack) []byte {
	out := gio.NewDataOutputX()
	pack.WritePack(out, l)
	return append([]byte{}, out.ToByteArray()...)
}

// judge evaluates everything the recorder received against the accepted records (in order).
func judge(r *recorder, accepted []*pack.LogSinkPack, wantAllFlushed bool) string {
	var got [][]byte
	for i, snap := range r.snapshot {
		dp := pack.ToPack(snap)
		z, ok := dp.(*pack.ZipPack)
		if !ok {
			return fmt.Sprintf("format: pack %d handed to the client is not a zip pack", i)
		}
		payload := z.Records
		if z.Status == pack.ZIPPED {
			un, err := compressutil.UnZip(z.Records)
			if err != nil {
				return fmt.Sprintf("format: pack %d is flagged compressed but does not decompress: %v", i, err)
			}
			payload = un
		} else if z.Status != 0 {
			return fmt.Sprintf("format: pack %d has status %d", i, z.Status)
		}
		if (z.Status == pack.ZIPPED) != (len(payload) >= r.zipMinAt[i]) {
			return fmt.Sprintf("compression: pack %d carries %d payload bytes with the minimum size %d in force but status is %d", i, len(payload), r.zipMinAt[i], z.Status)
		}
		// decode the payload back into records
		n := 0
		in := gio.NewDataInputX(payload)
		for in.Available() > 0 {
			var rec pack.Pack
			var perr interface{}
			func() {
				defer func() { perr = recover() }()
				rec = pack.ReadPack(in)
			}()
			if perr != nil {
				return fmt.Sprintf("decode: payload of pack %d does not decode into records: %v", i, perr)
			}
			ls, ok := rec.(*pack.LogSinkPack)
			if !ok {
				return fmt.Sprintf("decode: payload of pack %d contains a %T", i, rec)
			}
			got = append(got, recordBytes(ls))
			n++
		}
		if n != z.RecordCount {
			return fmt.Sprintf("count: pack %d says RecordCount=%d but contains %d records", i, z.RecordCount, n)
		}
		if n == 0 {
			return fmt.Sprintf("empty: pack %d carries no record", i)
		}
	}
	// exactly once, in order
	for i, g := range got {
		if i >= len(accepted) {
			return fmt.Sprintf("extra: %d records emitted but only %d were accepted (record %d is extra or duplicated)", len(got), len(accepted), i)
		}
		if !bytes.Equal(g, recordBytes(accepted[i])) {
			// duplicate, loss or reordering?
			for j, a := range accepted {
				if bytes.Equal(g, recordBytes(a)) {
					if j < i {
						return fmt.Sprintf("duplicate: emitted record %d is accepted record %d again", i, j)
					}
					return fmt.Sprintf("order-or-loss: emitted record %d is accepted record %d (records in between are missing or out of order)", i, j)
				}
			}
			return fmt.Sprintf("corrupt: emitted record %d matches no accepted record", i)
		}
	}
	if wantAllFlushed && len(got) != len(accepted) {
		return fmt.Sprintf("left-behind: %d of %d accepted records were never emitted", len(accepted)-len(got), len(accepted))
	}
	// immutability after hand-over
	if r.retain {
		for i, z := range r.handed {
			if !bytes.Equal(pack.ToBytesPack(z), r.snapshot[i]) {
				return fmt.Sprintf("mutated: pack %d retained by the client changed after it was handed over", i)
			}
		}
	}
	return ""
}

// ---- sequential histories --------------------------------------------------------------------------------

type setting struct {
	maxBuf  int
	maxWait int64
	zipMin  int
}

func sequential(c *evid.Ctx, depth int) {
	sizes := []int{0, 10, 60, 200}
	dts := []int64{0, 999, 1000}
	settings := []setting{{64, 1000, 0}, {64, 1000, 40}, {256, 1000, 100}, {256, 1, 300}, {1 << 16, 1000, 100}, {64, 1000, 1 << 20}, {128, 1000, 1 << 20}}
	type op struct {
		kind string // append | direct
		size int
		dt   int64
		n    int
	}
	var alphabet []op
	for _, s := range sizes {
		for _, dt := range dts {
			alphabet = append(alphabet, op{"append", s, dt, 0})
		}
	}
	for _, n := range []int{0, 1, 3} {
		alphabet = append(alphabet, op{"direct", 60, 0, n})
	}
	// a record that cannot be serialised (a LogSinkPack built as a literal: no tag map): Append skips
	// it - it is not accepted, so it must leave no trace in any pack's count or payload
	alphabet = append(alphabet, op{"poison", 0, 0, 0})
	var evals int64
	runOne := func(st setting, retain bool, h []int) *recorder {
		evals++
		rc := &recorder{retain: retain, curMin: func() int { return st.zipMin }}
		ctx, cancel := context.WithCancel(context.Background())
		z := zip.VerifNew(rc, false, st.maxWait, 0, st.maxBuf, st.zipMin, ctx, cancel)
		var accepted []*pack.LogSinkPack
		id := 0
		t := int64(1700000000000)
		pendBytes, pendFirst := 0, int64(-1)
		var desc []string
		verdict := ""
		for _, oi := range h {
			o := alphabet[oi]
			if o.kind == "poison" {
				func() {
					defer func() {
						if r := recover(); r != nil {
							verdict = fmt.Sprintf("panic: Append of a record that cannot be serialised panicked: %v", r)
						}
					}()
					z.Append(&pack.LogSinkPack{})
				}()
				desc = append(desc, "Append(unserialisable record)")
				if verdict != "" {
					break
				}
				continue
			}
			if o.kind == "append" {
				t += o.dt
				r := mkRecord(id, o.size, t)
				id++
				accepted = append(accepted, r)
				before := len(rc.snapshot)
				z.Append(r)
				desc = append(desc, fmt.Sprintf("Append(%dB,+%dms)", o.size, o.dt))
				pendBytes += len(recordBytes(r))
				if pendFirst < 0 {
					pendFirst = t
				}
				// deadline: once the buffer reached the limit or the record-time span the
				// waiting time, a flush must have happened by the end of this Append
				if (pendBytes >= st.maxBuf || t-pendFirst >= st.maxWait) && len(rc.snapshot) == before {
					verdict = fmt.Sprintf("deadline: after %v the buffer holds %d bytes spanning %d ms (limits %d bytes / %d ms) but nothing was flushed", desc, pendBytes, t-pendFirst, st.maxBuf, st.maxWait)
					break
				}
				if len(rc.snapshot) > before {
					pendBytes, pendFirst = 0, -1
				}
			} else {
				var arr []*pack.LogSinkPack
				for k := 0; k < o.n; k++ {
					r := mkRecord(id, o.size, t)
					id++
					arr = append(arr, r)
				}
				// SendDirect bypasses the shared buffer: its records are emitted immediately,
				// records still buffered by Append stay where they are and come out later
				tail := buffered(accepted, rc)
				head := accepted[:len(accepted)-len(tail)]
				z.SendDirect(arr)
				desc = append(desc, fmt.Sprintf("SendDirect(%d)", o.n))
				accepted = append(append(append([]*pack.LogSinkPack{}, head...), arr...), tail...)
			}
		}
		if verdict == "" {
			cancel()
			// stop: flush what is buffered (what run() does on cancellation)
			z.VerifFlushOnStop()
			verdict = judge(rc, accepted, true)
		}
		if verdict != "" {
			kind := strings.SplitN(verdict, ":", 2)[0]
			c.Violation("C16:sequential:"+kind, fmt.Sprintf("settings{maxBuf:%d maxWait:%d zipMin:%d} retain=%v history %v: %s", st.maxBuf, st.maxWait, st.zipMin, retain, desc, verdict),
				map[string]interface{}{"engine": "E2", "settings": fmt.Sprint(st), "retain": retain, "history": desc})
		}
		return rc
	}
	for _, st := range settings {
		for _, retain := range []bool{false, true} {
			hist := make([]int, depth)
			var rec func(pos, l int)
			rec = func(pos, l int) {
				if pos == l {
					runOne(st, retain, hist[:l])
					return
				}
				for i := range alphabet {
					hist[pos] = i
					rec(pos+1, l)
				}
			}
			for l := 1; l <= depth; l++ {
				rec(0, l)
			}
		}
	}
	// threshold sweep: for every history of length <= 2, learn the payload length L of each pack it
	// emits (with compression out of reach) and re-run it with the minimum size at L-1, L and L+1, so
	// that "compressed exactly when the payload reaches the minimum" is judged at equality
	sweeps := int64(0)
	for _, mb := range []int{64, 1 << 16} {
		var hs [][]int
		for i := range alphabet {
			hs = append(hs, []int{i})
			for j := range alphabet {
				hs = append(hs, []int{i, j})
			}
		}
		for _, h := range hs {
			probe := runOne(setting{mb, 1000, 1 << 20}, false, h)
			seen := map[int]bool{}
			for _, zp := range probe.handed {
				L := len(zp.Records)
				for _, m := range []int{L - 1, L, L + 1} {
					if m < 1 || seen[m] {
						continue
					}
					seen[m] = true
					sweeps++
					runOne(setting{mb, 1000, m}, false, h)
				}
			}
		}
	}
	c.Count("threshold_sweep_runs", sweeps)
	c.Count("sequential_histories", evals)
	c.Count("states", evals)
	c.Count("transitions", evals*int64(depth))
}

// buffered returns the accepted records not yet emitted (a suffix of accepted).
func buffered(accepted []*pack.LogSinkPack, rc *recorder) []*pack.LogSinkPack {
	emitted := 0
	for _, snap := range rc.snapshot {
		z := pack.ToPack(snap).(*pack.ZipPack)
		emitted += z.RecordCount
	}
	if emitted > len(accepted) {
		emitted = len(accepted)
	}
	return accepted[emitted:]
}

// ---- defaults ------------------------------------------------------------------------------------------

func defaults(c *evid.Ctx) {
	zip.VerifResetInstance()
	rc := &recorder{}
	z := zip.GetInstance(zip.WithTcpClient(rc))
	mw, qs, mb, zm := z.VerifSettings()
	zip.VerifResetInstance()
	if mw != 5000 || qs != 1000 || mb != 64*1024 || zm != 100 {
		c.Violation("C16:defaults", fmt.Sprintf("a sender created without configuration has waiting time %d ms, queue size %d, buffer size %d, compression threshold %d; the built-in defaults are 5000 / 1000 / 65536 / 100", mw, qs, mb, zm), nil)
	}
	c.Count("states", 1)
}

// ---- configuration updates --------------------------------------------------------------------------------

// ---- concurrent ------------------------------------------------------------------------------------------

type cscen struct {
	producers [][]int // record sizes per producer
	st        setting
	retain    bool
	stopEarly bool // cancel while producers may still be adding
	qsize     int
	// newWait > 0: a configuration thread applies a new waiting time (ApplyConfig, as the configuration
	// observer does) while the sender is running; the producers start 1 s later, and the stopper two old
	// waiting times after that. The waiting time in force for the idle flush is then the
	// new one: the batch must reach the client within two new waiting times of its last record.
	newWait int64
}

func (s cscen) String() string {
	return fmt.Sprintf("producers=%v settings{maxBuf:%d maxWait:%d zipMin:%d} queue=%d retain=%v stopWhileProducing=%v reconfiguredWait=%d", s.producers, s.st.maxBuf, s.st.maxWait, s.st.zipMin, s.qsize, s.retain, s.stopEarly, s.newWait)
}

func (s cscen) scenario() dfs.Scenario {
	return func(x *sched.Exec) func() string {
		rc := &recorder{retain: s.retain, curMin: func() int { return s.st.zipMin }}
		ctx, cancel := context.WithCancel(context.Background())
		z := zip.VerifNew(rc, true, s.st.maxWait, s.qsize, s.st.maxBuf, s.st.zipMin, ctx, cancel)
		refused := map[interface{}]bool{}
		z.Queue.Failed = func(v interface{}) { refused[v] = true }
		perProd := make([][]*pack.LogSinkPack, len(s.producers)) // accepted records per producer, in call order
		cancelled := false
		mustEmit := 0
		left := len(s.producers)
		id := 0
		lastAdd := int64(0)
		if s.newWait > 0 {
			x.Spawn("config", func() {
				x.Yield(sched.Op{Kind: "op:config"})
				z.ApplyConfig(mapConf{"max_wait_time": fmt.Sprint(s.newWait), "max_buffer_size": fmt.Sprint(s.st.maxBuf), "logsink_zip_min_size": fmt.Sprint(s.st.zipMin), "logsink_queue_size": fmt.Sprint(s.qsize)})
			})
		}
		for pi, sizes := range s.producers {
			pi, sizes := pi, sizes
			x.Spawn(fmt.Sprintf("P%d", pi), func() {
				if s.newWait > 0 {
					vtime.Sleep(time.Second)
				}
				for k, sz := range sizes {
					x.Yield(sched.Op{Kind: "op:add"})
					lastAdd = vtime.Now().UnixMilli()
					r := mkRecord(pi*100+k, sz, 1700000000000+int64(id)*10)
					id++
					z.Add(r)
					if !refused[r] {
						perProd[pi] = append(perProd[pi], r)
						if !cancelled {
							mustEmit++ // accepted before the stop: has to come out
						}
					}
				}
				left--
			})
		}
		run := x.Spawn("run", func() { z.VerifRun() })
		x.Spawn("stopper", func() {
			if s.newWait > 0 {
				vtime.Sleep(time.Second + 2*time.Duration(s.st.maxWait)*time.Millisecond)
			} else if s.stopEarly {
				x.Yield(sched.Op{Kind: "stopper-any"})
			} else {
				x.Yield(sched.Op{Kind: "stopper-wait", Enabled: func() bool {
					return left == 0 && coll.QueueLen(z.Queue) == 0 && run.PendingKind() == "sleep"
				}})
			}
			cancelled = true
			cancel()
		})
		return func() string {
			defer cancel()
			if x.HitStepCap {
				return "livelock: step cap hit"
			}
			if x.Deadlock {
				return "deadlock: " + strings.Join(x.Blocked, ",")
			}
			for _, t := range x.Threads() {
				if t.Panic != nil {
					return fmt.Sprintf("panic: thread %s died: %v", t.Name, t.Panic)
				}
			}
			// records still in the queue when the sender stopped were accepted by Add; with an early
			// stop the producers may add after the background goroutine has gone, which no sender can
			// emit: those are excluded (they were put after the stop)
			// the acceptance order across producers is the order of the queue's lock acquisitions,
			// which the harness reconstructs from what was emitted: the emitted sequence must be a
			// merge of the producers' sequences (each in its own order)
			acc, msg := mergeOrder(rc, perProd)
			if msg != "" {
				return msg
			}
			// choosing a sleeping thread before its time models the other threads being held up for that
			// long: deadlines (and "everything was flushed before the timed stop") are judged in the
			// executions without such a jump only
			timeJumps := 0
			for _, p := range x.Points {
				if p.Kind == sched.PointSched && p.NEnabled > 0 && p.Chosen >= p.NEnabled {
					timeJumps++
				}
			}
			wantAll := !s.stopEarly
			if s.newWait > 0 {
				wantAll = timeJumps == 0
			}
			if v := judge(rc, acc, wantAll); v != "" {
				return v
			}
			if s.newWait > 0 && len(rc.at) > 0 && timeJumps == 0 {
				if last := rc.at[len(rc.at)-1]; last > lastAdd+2*s.newWait+50 {
					return fmt.Sprintf("deadline: the waiting time was reconfigured from %d to %d ms before any record arrived, the last record was added at +%d ms and nothing followed, but the batch reached the client only at +%d ms (idle flush still using the old waiting time)", s.st.maxWait, s.newWait, lastAdd-vtime.Epoch.UnixMilli(), last-vtime.Epoch.UnixMilli())
				}
			}
			emitted := len(acc) - len(buffered(acc, rc))
			if emitted < mustEmit {
				return fmt.Sprintf("left-behind-at-stop: %d records were accepted by Add before the sender was stopped but only %d were ever emitted (records still queued at cancellation are dropped)", mustEmit, emitted)
			}
			return ""
		}
	}
}

// mergeOrder reads the emitted records and builds the acceptance order they imply: per producer the
// records must come out in call order; records not emitted (yet) are appended producer by producer.
func mergeOrder(rc *recorder, perProd [][]*pack.LogSinkPack) ([]*pack.LogSinkPack, string) {
	next := make([]int, len(perProd))
	var order []*pack.LogSinkPack
	for i, snap := range rc.snapshot {
		z, ok := pack.ToPack(snap).(*pack.ZipPack)
		if !ok {
			return nil, fmt.Sprintf("format: pack %d is not a zip pack", i)
		}
		payload := z.Records
		if z.Status == pack.ZIPPED {
			un, err := compressutil.UnZip(z.Records)
			if err != nil {
				return nil, fmt.Sprintf("format: pack %d does not decompress: %v", i, err)
			}
			payload = un
		}
		in := gio.NewDataInputX(payload)
		for in.Available() > 0 {
			var rec pack.Pack
			var perr interface{}
			func() {
				defer func() { perr = recover() }()
				rec = pack.ReadPack(in)
			}()
			if perr != nil {
				return nil, fmt.Sprintf("decode: payload of pack %d does not decode into records: %v", i, perr)
			}
			ls, _ := rec.(*pack.LogSinkPack)
			if ls == nil {
				return nil, fmt.Sprintf("decode: payload of pack %d contains a %T", i, rec)
			}
			found := false
			for pi := range perProd {
				if next[pi] < len(perProd[pi]) && bytes.Equal(recordBytes(perProd[pi][next[pi]]), recordBytes(ls)) {
					order = append(order, perProd[pi][next[pi]])
					next[pi]++
					found = true
					break
				}
			}
			if !found {
				return nil, fmt.Sprintf("order-duplicate-or-corrupt: a record emitted in pack %d is not the next accepted record of any producer (line %d)", i, ls.Line)
			}
		}
	}
	for pi := range perProd {
		order = append(order, perProd[pi][next[pi]:]...)
	}
	return order, ""
}

func cscens(thorough bool) []cscen {
	var out []cscen
	// reconfiguration of the waiting time while the sender runs (idle flush must follow it)
	for _, prods := range [][][]int{{{10}}, {{10, 60}}} {
		out = append(out, cscen{producers: prods, st: setting{1 << 16, 1200, 100}, qsize: 1000, newWait: 150})
	}
	for _, st := range []setting{{64, 1000, 0}, {256, 1000, 100}, {64, 1, 40}} {
		for _, retain := range []bool{false, true} {
			for _, prods := range [][][]int{{{10}}, {{10, 60}}, {{10}, {60}}, {{10, 200}, {60}}} {
				for _, early := range []bool{false, true} {
					for _, q := range []int{1000, 1} {
						if !thorough && (q == 1 && early || len(prods) == 2 && len(prods[0]) == 2 && retain) {
							continue
						}
						out = append(out, cscen{producers: prods, st: st, retain: retain, stopEarly: early, qsize: q})
					}
				}
			}
		}
	}
	return out
}

func Run(c *evid.Ctx) {
	if w := shard.Worker(); w != nil {
		pb := 1
		if c.Thorough() {
			pb = 2
		}
		for _, s := range cscens(c.Thorough()) {
			st, viols, err := dfs.Explore(s.scenario(), dfs.Config{Preemptions: pb, Faults: 0, StepCap: 6000, MaxExec: 300000, ShardI: w.I, ShardN: w.N}, false)
			if err != nil {
				c.Broken(err.Error() + " in " + s.String())
				continue
			}
			if w.I == 0 {
				c.Count("concurrent_scenarios", 1)
			}
			c.Count("states", int64(st.Executions))
			c.Count("transitions", int64(st.Steps))
			if st.Capped {
				c.NotExhaustive("execution cap hit in " + s.String())
			}
			if w.I == 1 && len(s.producers) == 2 {
				c.Sample(map[string]interface{}{"concurrent_scenario": s.String(), "executions_in_this_shard_of_16": st.Executions, "preemption_bound": pb})
			}
			for _, v := range viols {
				kind := strings.SplitN(v.Verdict, ":", 2)[0]
				c.Violation("C16:concurrent:"+kind, fmt.Sprintf("%s — %s — choices %v", s.String(), v.Verdict, v.Choices), map[string]interface{}{"engine": "E1", "scenario": s.String(), "choices": v.Choices, "trace": v.Trace})
			}
		}
		return
	}
	depth := 3
	if c.Thorough() {
		depth = 4
	}
	defaults(c)
	sequential(c, depth)
	shard.Spawn(c, 16, true)
	// the premise of the enumeration above (atomic blocks = data-race-free code) is checked in the
	// race mode of the explorer (race.go)
	shard.SpawnRace(c, 8)
	c.Cov["traces_validated_against_impl"] = c.Counter("states")
	c.Cov["rule"] = "sequential: states = complete Append/SendDirect histories (record sizes around the thresholds, record-time steps 0 / maxWait-1 / maxWait, five settings, consuming and retaining client) on the real sender, each judged for exactly-once/in-order/decodable/count/compression-iff-threshold/immutability and the flush deadlines; concurrent: states = complete schedules of 1-2 producers, the real background goroutine and a stopper, judged the same way after the stop"
	c.Sample(map[string]interface{}{"sequential_history": "Append(60B,+0ms) SendDirect(3) Append(200B,+1000ms)", "settings": "maxBuf 64 / maxWait 1000 / zipMin 40", "client": "retaining"})
	c.Assume("extra or earlier flushes are legal; the record time, not the wall clock, drives the waiting-time flush inside Append; the idle flush and the stop flush run on virtual time")
}
