package seqx

import (
	"crypto/sha1"
	"fmt"
	"runtime"
	"sort"
	"sync"
)

// Sys describes one closed sequential system: a real object driven in lock-step with a reference
// model over a finite operation alphabet.
type Sys struct {
	Name string
	NOps int
	// New builds a fresh (implementation, model) pair in the initial state.
	New func() (impl, model interface{})
	// Step applies operation op to both and returns a non-empty mismatch description when the
	// implementation's result differs from what the model allows.
	Step func(impl, model interface{}, op int) string
	// Observe compares a full observation of both (called once per newly discovered state).
	Observe func(impl, model interface{}) string
	// Key returns the canonical state key of the implementation (default: Dump).
	Key func(impl interface{}) string
	// ModelKey returns a canonical key of the reference model. States are deduplicated on the PAIR
	// (implementation heap, model state): an implementation state that is wrong for this history but
	// happens to equal a legitimate state reached by another history must still be judged.
	ModelKey func(model interface{}) string
	OpLabel  func(op int) string
	MaxDepth int
	// MaxStates caps the search (0 = none); hitting it makes the result non-exhaustive.
	MaxStates int
	// Workers limits parallelism (0 = GOMAXPROCS); 1 when the system uses process-global state
	// such as the virtual clock.
	Workers int
}

type Viol struct {
	History []int
	Labels  []string
	What    string
}

type Result struct {
	States      int
	Transitions int
	Depth       int  // deepest level fully expanded
	Fixpoint    bool // no new state at the last level: the reachable space was exhausted
	Capped      bool
	Viols       []Viol
	SampleHist  []string
}

type keyT [20]byte

// BFS explores every operation history up to MaxDepth (or to the fixpoint), deduplicating on the
// canonical heap of the implementation. A successor is computed by replaying the history on a
// fresh pair and applying one more operation. All violations with distinct `What` prefixes (up to
// a small number) are returned; exploration continues past a violating transition's siblings but a
// violating state is not expanded.
func BFS(s *Sys) Result {
	keyf := s.Key
	if keyf == nil {
		keyf = func(impl interface{}) string { return Dump(impl) }
	}
	var res Result
	seen := map[keyT]bool{}
	impl0, model0 := s.New()
	if m := s.Observe(impl0, model0); m != "" {
		res.Viols = append(res.Viols, Viol{What: "initial state: " + m})
		return res
	}
	pairKey := func(impl, model interface{}) keyT {
		k := keyf(impl)
		if s.ModelKey != nil {
			k += "\x00#model#" + s.ModelKey(model)
		}
		return sha1.Sum([]byte(k))
	}
	seen[pairKey(impl0, model0)] = true
	res.States = 1
	frontier := [][]int{{}}
	nw := runtime.GOMAXPROCS(0)
	if s.Workers > 0 {
		nw = s.Workers
	}
	violSeen := map[string]bool{}
	for depth := 0; depth < s.MaxDepth && len(frontier) > 0; depth++ {
		type found struct {
			key  keyT
			hist []int
		}
		var mu sync.Mutex
		var newStates []found
		var viols []Viol
		trans := 0
		var wg sync.WaitGroup
		chunk := (len(frontier) + nw - 1) / nw
		for w := 0; w < nw; w++ {
			lo, hi := w*chunk, (w+1)*chunk
			if lo >= len(frontier) {
				break
			}
			if hi > len(frontier) {
				hi = len(frontier)
			}
			wg.Add(1)
			go func(part [][]int) {
				defer wg.Done()
				var loc []found
				var lv []Viol
				lt := 0
				for _, hist := range part {
					for op := 0; op < s.NOps; op++ {
						impl, model := s.New()
						bad := false
						for _, h := range hist {
							if m := s.Step(impl, model, h); m != "" {
								// cannot happen: the prefix was validated when it was discovered
								lv = append(lv, Viol{History: append(append([]int{}, hist...), op), What: "non-deterministic replay: " + m})
								bad = true
								break
							}
						}
						if bad {
							continue
						}
						lt++
						nh := append(append(make([]int, 0, len(hist)+1), hist...), op)
						if m := s.Step(impl, model, op); m != "" {
							lv = append(lv, Viol{History: nh, What: m})
							continue
						}
						k := pairKey(impl, model)
						mu.Lock()
						known := seen[k]
						mu.Unlock()
						if known {
							continue
						}
						if m := s.Observe(impl, model); m != "" {
							lv = append(lv, Viol{History: nh, What: "after the history the observable state differs: " + m})
							continue
						}
						loc = append(loc, found{k, nh})
					}
				}
				mu.Lock()
				newStates = append(newStates, loc...)
				viols = append(viols, lv...)
				trans += lt
				mu.Unlock()
			}(frontier[lo:hi])
		}
		wg.Wait()
		res.Transitions += trans
		res.Depth = depth + 1
		// deterministic choice of representative history per new state
		sort.Slice(newStates, func(i, j int) bool { return lessHist(newStates[i].hist, newStates[j].hist) })
		frontier = frontier[:0]
		for _, f := range newStates {
			if seen[f.key] {
				continue
			}
			seen[f.key] = true
			res.States++
			frontier = append(frontier, f.hist)
		}
		sort.Slice(viols, func(i, j int) bool { return lessHist(viols[i].History, viols[j].History) })
		for _, v := range viols {
			cls := v.What
			if len(cls) > 60 {
				cls = cls[:60]
			}
			if violSeen[cls] || len(res.Viols) >= 8 {
				continue
			}
			violSeen[cls] = true
			for _, h := range v.History {
				v.Labels = append(v.Labels, s.OpLabel(h))
			}
			res.Viols = append(res.Viols, v)
		}
		if len(frontier) == 0 {
			res.Fixpoint = true
		}
		if s.MaxStates > 0 && res.States >= s.MaxStates {
			res.Capped = true
			break
		}
	}
	for i, h := range frontier {
		if i >= 2 {
			break
		}
		var ls []string
		for _, o := range h {
			ls = append(ls, s.OpLabel(o))
		}
		res.SampleHist = append(res.SampleHist, fmt.Sprint(ls))
	}
	return res
}

func lessHist(a, b []int) bool {
	if len(a) != len(b) {
		return len(a) < len(b)
	}
	for i := range a {
		if a[i] != b[i] {
			return a[i] < b[i]
		}
	}
	return false
}
