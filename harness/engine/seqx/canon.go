// Package seqx is engine E2: explicit-state search over operation histories of real objects.
// canon.go: canonical dump of the concrete heap reachable from a value, used as the state key.
package seqx

import (
	"encoding/binary"
	"math"
	"reflect"
	"strings"
	"unsafe"
)

// Dumper produces a canonical byte string of the object graph reachable from a value: pointers
// are numbered in discovery order, mutexes / conds / funcs / channels are skipped. Two values with
// equal dumps are isomorphic object graphs.
type Dumper struct {
	buf  []byte
	seen map[unsafe.Pointer]int
	// SkipField, when set, says which struct fields not to descend into.
	SkipField func(t reflect.Type, f reflect.StructField) bool
}

func Dump(v interface{}) string {
	d := &Dumper{seen: map[unsafe.Pointer]int{}}
	d.walk(reflect.ValueOf(v))
	return string(d.buf)
}

func skipType(t reflect.Type) bool {
	n := t.Name()
	if (n == "Mutex" || n == "Cond" || n == "RWMutex" || n == "Once" || n == "WaitGroup" || n == "Pool") && (strings.HasSuffix(t.PkgPath(), "vsync") || t.PkgPath() == "sync") {
		return true
	}
	return false
}

func (d *Dumper) u64(x uint64) {
	var b [8]byte
	binary.LittleEndian.PutUint64(b[:], x)
	d.buf = append(d.buf, b[:]...)
}

func (d *Dumper) walk(v reflect.Value) {
	if !v.IsValid() {
		d.buf = append(d.buf, 'z')
		return
	}
	t := v.Type()
	switch v.Kind() {
	case reflect.Bool:
		if v.Bool() {
			d.buf = append(d.buf, 'T')
		} else {
			d.buf = append(d.buf, 'F')
		}
	case reflect.Int, reflect.Int8, reflect.Int16, reflect.Int32, reflect.Int64:
		d.buf = append(d.buf, 'i')
		d.u64(uint64(v.Int()))
	case reflect.Uint, reflect.Uint8, reflect.Uint16, reflect.Uint32, reflect.Uint64, reflect.Uintptr:
		d.buf = append(d.buf, 'u')
		d.u64(v.Uint())
	case reflect.Float32, reflect.Float64:
		d.buf = append(d.buf, 'f')
		d.u64(math.Float64bits(v.Float()))
	case reflect.String:
		s := v.String()
		d.buf = append(d.buf, 's')
		d.u64(uint64(len(s)))
		d.buf = append(d.buf, s...)
	case reflect.Ptr:
		if v.IsNil() {
			d.buf = append(d.buf, 'n')
			return
		}
		if skipType(t.Elem()) {
			d.buf = append(d.buf, 'k')
			return
		}
		p := unsafe.Pointer(v.Pointer())
		if id, ok := d.seen[p]; ok {
			d.buf = append(d.buf, 'r')
			d.u64(uint64(id))
			return
		}
		d.seen[p] = len(d.seen)
		d.buf = append(d.buf, 'p')
		d.walk(v.Elem())
	case reflect.Interface:
		if v.IsNil() {
			d.buf = append(d.buf, 'N')
			return
		}
		d.buf = append(d.buf, 'I')
		e := v.Elem()
		d.buf = append(d.buf, e.Type().String()...)
		d.buf = append(d.buf, ':')
		d.walk(e)
	case reflect.Struct:
		if skipType(t) {
			d.buf = append(d.buf, 'k')
			return
		}
		d.buf = append(d.buf, '{')
		for i := 0; i < v.NumField(); i++ {
			sf := t.Field(i)
			if d.SkipField != nil && d.SkipField(t, sf) {
				continue
			}
			d.walk(v.Field(i))
		}
		d.buf = append(d.buf, '}')
	case reflect.Slice:
		if v.IsNil() {
			d.buf = append(d.buf, 'e')
			return
		}
		d.buf = append(d.buf, '[')
		d.u64(uint64(v.Len()))
		if v.Type().Elem().Kind() == reflect.Uint8 {
			for i := 0; i < v.Len(); i++ {
				d.buf = append(d.buf, byte(v.Index(i).Uint()))
			}
		} else {
			// compress runs of nil pointers (bucket tables are mostly empty)
			nilrun := 0
			for i := 0; i < v.Len(); i++ {
				e := v.Index(i)
				if (e.Kind() == reflect.Ptr || e.Kind() == reflect.Interface) && e.IsNil() {
					nilrun++
					continue
				}
				if nilrun > 0 {
					d.buf = append(d.buf, '_')
					d.u64(uint64(nilrun))
					nilrun = 0
				}
				d.walk(e)
			}
			if nilrun > 0 {
				d.buf = append(d.buf, '_')
				d.u64(uint64(nilrun))
			}
		}
		d.buf = append(d.buf, ']')
	case reflect.Array:
		d.buf = append(d.buf, '(')
		for i := 0; i < v.Len(); i++ {
			d.walk(v.Index(i))
		}
		d.buf = append(d.buf, ')')
	case reflect.Map:
		// only harness-owned maps are expected here; order-insensitive dump is not needed for golib
		// (it has no built-in maps in the structures under test); dump length only.
		d.buf = append(d.buf, 'm')
		d.u64(uint64(v.Len()))
	case reflect.Func, reflect.Chan, reflect.UnsafePointer:
		if v.IsNil() {
			d.buf = append(d.buf, 'n')
		} else {
			d.buf = append(d.buf, 'x')
		}
	default:
		d.buf = append(d.buf, '?')
	}
}
