// Package racelog reads the Go race detector's log while a -race build of the harness explores
// schedules (engine E1 in race mode, see shim/sched/race_on.go): after every execution the newly
// written reports are parsed and classified by the functions of the two conflicting accesses.
package racelog

import (
	"fmt"
	"os"
	"sort"
	"strings"
)

// Report is one parsed "WARNING: DATA RACE" block.
type Report struct {
	Kinds [2]string // "Read" / "Write" (of the two accesses)
	Sites [2]string // innermost frame of each access that is neither runtime nor reflect
	Text  string
}

// Lib reports whether both accesses are made by golib code proper (not by the shims that stand in
// for sync/time/net/os, and not by the harness).
func (r Report) Lib() bool {
	return isLib(r.Sites[0]) && isLib(r.Sites[1])
}

const libPrefix = "github.com/whatap/golib/"

func isLib(fn string) bool {
	return strings.HasPrefix(fn, libPrefix) && !strings.Contains(fn, "/verifshim/")
}

// Key is a stable name for the pair of racing functions.
func (r Report) Key() string {
	a := strings.TrimPrefix(r.Sites[0], libPrefix) + "[" + r.Kinds[0] + "]"
	b := strings.TrimPrefix(r.Sites[1], libPrefix) + "[" + r.Kinds[1] + "]"
	s := []string{a, b}
	sort.Strings(s)
	return s[0] + "~" + s[1]
}

// Log follows the detector's log file of this process.
type Log struct {
	path string
	off  int64
}

// Open locates the log of this process: GORACE log_path=<prefix> makes the runtime write to
// <prefix>.<pid>.
func Open() (*Log, error) {
	prefix := os.Getenv("VERIF_RACE_LOG")
	if prefix == "" {
		return nil, fmt.Errorf("VERIF_RACE_LOG is not set")
	}
	return &Log{path: fmt.Sprintf("%s.%d", prefix, os.Getpid())}, nil
}

// Path of the log file.
func (l *Log) Path() string { return l.path }

// New returns the reports written since the previous call.
func (l *Log) New() []Report {
	f, err := os.Open(l.path)
	if err != nil {
		return nil // the file is created with the first report
	}
	defer f.Close()
	st, err := f.Stat()
	if err != nil || st.Size() <= l.off {
		return nil
	}
	buf := make([]byte, st.Size()-l.off)
	n, _ := f.ReadAt(buf, l.off)
	text := string(buf[:n])
	// only consume complete blocks (a block ends with a line of '=' after its body)
	var out []Report
	consumed := 0
	for {
		i := strings.Index(text[consumed:], "WARNING: DATA RACE")
		if i < 0 {
			break
		}
		start := consumed + i
		end := strings.Index(text[start:], "\n==================")
		if end < 0 {
			break
		}
		block := text[start : start+end]
		consumed = start + end + len("\n==================")
		out = append(out, parse(block))
	}
	l.off += int64(consumed)
	return out
}

func parse(block string) Report {
	r := Report{Text: block}
	secs := strings.Split(block, "\n\n")
	k := 0
	for _, sec := range secs {
		lines := strings.Split(strings.TrimSpace(sec), "\n")
		if len(lines) == 0 {
			continue
		}
		hdr := strings.TrimSpace(lines[0])
		if strings.HasPrefix(hdr, "WARNING") && len(lines) > 1 {
			lines = lines[1:]
			hdr = strings.TrimSpace(lines[0])
		}
		if !strings.Contains(hdr, " at 0x") || k >= 2 {
			continue
		}
		kind := "Read"
		if strings.Contains(strings.ToLower(hdr), "write") {
			kind = "Write"
		}
		site := ""
		for i := 1; i+1 < len(lines); i += 2 {
			fn := strings.TrimSpace(lines[i])
			if j := strings.LastIndex(fn, "("); j > 0 {
				fn = fn[:j]
			}
			if strings.HasPrefix(fn, "runtime.") || strings.HasPrefix(fn, "reflect.") || strings.HasPrefix(fn, "internal/") {
				continue
			}
			site = fn
			break
		}
		r.Kinds[k], r.Sites[k] = kind, site
		k++
	}
	return r
}
