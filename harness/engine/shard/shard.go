// Package shard runs a check's work items in worker subprocesses of the same binary (explorer
// processes must be single-threaded because the scheduler is process-global; a worker that dies or
// hangs must not take the check down silently).
package shard

import (
	"bytes"
	"context"
	"fmt"
	"os"
	"os/exec"
	"strconv"
	"strings"
	"sync"
	"time"

	"verif/engine/evid"
)

type W struct{ I, N int }

// Worker returns the shard coordinates when this process is a worker.
func Worker() *W {
	s := os.Getenv("VERIF_WORKER")
	if s == "" {
		return nil
	}
	parts := strings.Split(s, "/")
	if len(parts) != 2 {
		return nil
	}
	i, _ := strconv.Atoi(parts[0])
	n, _ := strconv.Atoi(parts[1])
	return &W{i, n}
}

// RaceWorker returns the shard coordinates when this process is a worker of the race pass (the
// -race build of the harness, started by SpawnRace).
func RaceWorker() *W {
	s := os.Getenv("VERIF_RACE_WORKER")
	if s == "" {
		return nil
	}
	parts := strings.Split(s, "/")
	if len(parts) != 2 {
		return nil
	}
	i, _ := strconv.Atoi(parts[0])
	n, _ := strconv.Atoi(parts[1])
	return &W{i, n}
}

// Timeout for one worker; generous, a hit is reported as a broken check (exit 2), not a verdict.
var Timeout = 75 * time.Minute

// SpawnRace starts n workers of the -race build of the harness (VERIF_RACE_BIN, built by bin/check)
// with the detector logging to a per-process file, and merges their results into c.
func SpawnRace(c *evid.Ctx, n int) {
	bin := os.Getenv("VERIF_RACE_BIN")
	if bin == "" {
		c.Broken("VERIF_RACE_BIN is not set: the race pass needs the -race build that bin/check prepares")
		return
	}
	dir := os.Getenv("VERIF_RACE_DIR")
	if dir == "" {
		dir = os.TempDir()
	}
	prefix := fmt.Sprintf("%s/race.%d", dir, os.Getpid())
	spawn(c, n, true, bin, func(i int) []string {
		return []string{
			fmt.Sprintf("VERIF_RACE_WORKER=%d/%d", i, n),
			"VERIF_RACE_LOG=" + prefix,
			// every report is wanted, every time: no de-duplication by stack or address (a replay
			// must see the same reports), no exit-code change, no sleep at exit
			"GORACE=log_path=" + prefix + " halt_on_error=0 suppress_equal_stacks=0 suppress_equal_addresses=0 exitcode=0 atexit_sleep_ms=0",
		}
	})
}

// Spawn starts n workers of the current command line and merges their results into c.
func Spawn(c *evid.Ctx, n int, singleProc bool) {
	spawn(c, n, singleProc, os.Args[0], func(i int) []string { return []string{fmt.Sprintf("VERIF_WORKER=%d/%d", i, n)} })
}

func spawn(c *evid.Ctx, n int, singleProc bool, bin string, env func(i int) []string) {
	var wg sync.WaitGroup
	var mu sync.Mutex
	for i := 0; i < n; i++ {
		wg.Add(1)
		go func(i int) {
			defer wg.Done()
			ctx, cancel := context.WithTimeout(context.Background(), Timeout)
			defer cancel()
			cmd := exec.CommandContext(ctx, bin, os.Args[1:]...)
			cmd.Env = append(os.Environ(), env(i)...)
			if singleProc {
				cmd.Env = append(cmd.Env, "GOMAXPROCS=1")
			}
			var out, errb bytes.Buffer
			cmd.Stdout = &out
			cmd.Stderr = &errb
			err := cmd.Run()
			mu.Lock()
			defer mu.Unlock()
			merged := false
			for _, line := range strings.Split(out.String(), "\n") {
				if strings.HasPrefix(line, "WORKER-RESULT ") {
					if e := c.Merge([]byte(strings.TrimPrefix(line, "WORKER-RESULT "))); e == nil {
						merged = true
					}
				}
			}
			if err != nil || !merged {
				tail := errb.String()
				if len(tail) > 1500 {
					tail = tail[len(tail)-1500:]
				}
				c.Broken(fmt.Sprintf("worker %d/%d failed: %v; stderr tail: %s", i, n, err, tail))
			}
		}(i)
	}
	wg.Wait()
}
