// Package evid writes evidence files, replay files and handles the known-findings file.
package evid

import (
	"bufio"
	"crypto/sha1"
	"encoding/hex"
	"encoding/json"
	"fmt"
	"os"
	"path/filepath"
	"sort"
	"strconv"
	"strings"
	"sync"
	"time"
)

var Root = func() string {
	if r := os.Getenv("VERIF_ROOT"); r != "" {
		return r
	}
	return "/verif"
}()

type Finding struct {
	Property string `json:"property"`
	Key      string `json:"key"`
	Status   string `json:"status"` // known | fixed
	Commit   string `json:"commit,omitempty"`
	What     string `json:"what"`
}

type Viol struct {
	Key    string      `json:"key"`  // stable identifier of the failing call site / law / history class
	What   string      `json:"what"` // human description
	Replay interface{} `json:"replay,omitempty"`
}

// Ctx collects what one check run covered.
type Ctx struct {
	ID    string
	Tier  string
	Seed  int64
	Level string
	start time.Time

	mu          sync.Mutex
	Cov         map[string]interface{}
	counters    map[string]int64
	samples     []interface{}
	Assumptions []string
	viols       []Viol
	infos       []string
	known       map[string]Finding
	knownHit    map[string]int
	Exhaustive  bool
	notes       []string
	broken      []string
}

func New(id, tier, level string) *Ctx {
	seed, _ := strconv.ParseInt(os.Getenv("VERIF_SEED"), 10, 64)
	c := &Ctx{ID: id, Tier: tier, Seed: seed, Level: level, start: time.Now(), Cov: map[string]interface{}{}, counters: map[string]int64{}, known: map[string]Finding{}, knownHit: map[string]int{}, Exhaustive: true}
	c.loadKnown()
	return c
}

func (c *Ctx) loadKnown() {
	f, err := os.Open(filepath.Join(Root, "known_findings.jsonl"))
	if err != nil {
		return
	}
	defer f.Close()
	sc := bufio.NewScanner(f)
	sc.Buffer(make([]byte, 1<<20), 1<<20)
	for sc.Scan() {
		line := strings.TrimSpace(sc.Text())
		if line == "" || strings.HasPrefix(line, "#") {
			continue
		}
		var fd Finding
		if json.Unmarshal([]byte(line), &fd) != nil {
			continue
		}
		if fd.Property == c.ID && fd.Status == "known" {
			c.known[fd.Key] = fd
		}
	}
}

func (c *Ctx) Thorough() bool { return c.Tier == "thorough" }

// Count adds n to a named counter (thread-safe).
func (c *Ctx) Count(name string, n int64) {
	c.mu.Lock()
	c.counters[name] += n
	c.mu.Unlock()
}

func (c *Ctx) Counter(name string) int64 {
	c.mu.Lock()
	defer c.mu.Unlock()
	return c.counters[name]
}

// Sample records an actual explored case (kept to a small number).
func (c *Ctx) Sample(s interface{}) {
	c.mu.Lock()
	if len(c.samples) < 12 {
		c.samples = append(c.samples, s)
	}
	c.mu.Unlock()
}

func (c *Ctx) Info(format string, a ...interface{}) {
	c.mu.Lock()
	if len(c.infos) < 200 {
		c.infos = append(c.infos, fmt.Sprintf(format, a...))
	}
	c.mu.Unlock()
}

func (c *Ctx) Assume(s string) {
	c.mu.Lock()
	for _, a := range c.Assumptions {
		if a == s {
			c.mu.Unlock()
			return
		}
	}
	c.Assumptions = append(c.Assumptions, s)
	c.mu.Unlock()
}

func (c *Ctx) NotExhaustive(why string) {
	c.mu.Lock()
	c.Exhaustive = false
	c.notes = append(c.notes, why)
	c.mu.Unlock()
}

// Violation reports a property violation. Violations with the same key are reported once.
func (c *Ctx) Violation(key, what string, replay interface{}) {
	c.mu.Lock()
	defer c.mu.Unlock()
	if _, ok := c.known[key]; ok {
		c.knownHit[key]++
		return
	}
	for _, v := range c.viols {
		if v.Key == key {
			return
		}
	}
	if len(c.viols) < 50 {
		c.viols = append(c.viols, Viol{Key: key, What: what, Replay: replay})
	}
}

func (c *Ctx) NViolations() int {
	c.mu.Lock()
	defer c.mu.Unlock()
	return len(c.viols)
}

type export struct {
	Counters map[string]int64
	Samples  []interface{}
	Viols    []Viol
	Infos    []string
	KnownHit map[string]int
	Notes    []string
	Exh      bool
	Assume   []string
	Broken   []string
}

// FinishWorker prints the collected state for the parent process.
func (c *Ctx) FinishWorker() int {
	c.mu.Lock()
	defer c.mu.Unlock()
	js, _ := json.Marshal(export{c.counters, c.samples, c.viols, c.infos, c.knownHit, c.notes, c.Exhaustive, c.Assumptions, c.broken})
	fmt.Printf("WORKER-RESULT %s\n", js)
	return 0
}

// Merge folds a worker's result into c.
func (c *Ctx) Merge(js []byte) error {
	var e export
	if err := json.Unmarshal(js, &e); err != nil {
		return err
	}
	c.mu.Lock()
	defer c.mu.Unlock()
	for k, v := range e.Counters {
		c.counters[k] += v
	}
	for _, s := range e.Samples {
		if len(c.samples) < 12 {
			c.samples = append(c.samples, s)
		}
	}
	for _, v := range e.Viols {
		dup := false
		for _, o := range c.viols {
			if o.Key == v.Key {
				dup = true
			}
		}
		if !dup && len(c.viols) < 50 {
			c.viols = append(c.viols, v)
		}
	}
	for _, in := range e.Infos {
		dup := false
		for _, have := range c.infos {
			if have == in {
				dup = true
				break
			}
		}
		if !dup {
			c.infos = append(c.infos, in)
		}
	}
	for k, n := range e.KnownHit {
		c.knownHit[k] += n
	}
	c.notes = append(c.notes, e.Notes...)
	if !e.Exh {
		c.Exhaustive = false
	}
	for _, a := range e.Assume {
		found := false
		for _, b := range c.Assumptions {
			if a == b {
				found = true
			}
		}
		if !found {
			c.Assumptions = append(c.Assumptions, a)
		}
	}
	c.broken = append(c.broken, e.Broken...)
	return nil
}

// Broken records a failure of the machinery itself (exit 2, never a VIOLATION).
func (c *Ctx) Broken(msg string) {
	c.broken = append(c.broken, msg)
}

// Finish writes the evidence file, prints KNOWN-FINDING / VIOLATION lines and returns the exit code.
func (c *Ctx) Finish() int {
	c.mu.Lock()
	defer c.mu.Unlock()
	cov := c.Cov
	for k, v := range c.counters {
		cov[k] = v
	}
	if len(c.samples) == 0 {
		c.samples = append(c.samples, "no sample recorded")
	}
	cov["samples"] = c.samples
	cov["exhaustive"] = c.Exhaustive
	if len(c.notes) > 0 {
		cov["caps_and_notes"] = c.notes
	}
	if len(c.infos) > 0 {
		cov["information"] = c.infos
	}
	keys := make([]string, 0, len(c.knownHit))
	for k := range c.knownHit {
		keys = append(keys, k)
	}
	sort.Strings(keys)
	kf := []string{}
	for _, k := range keys {
		fmt.Printf("KNOWN-FINDING: property=%s %s — %s (seen %d times)\n", c.ID, k, c.known[k].What, c.knownHit[k])
		kf = append(kf, k)
	}
	// listed known findings that did not show up on this run
	var stale []string
	for k := range c.known {
		if c.knownHit[k] == 0 {
			stale = append(stale, k)
		}
	}
	sort.Strings(stale)
	if len(kf) > 0 {
		cov["known_findings_reproduced"] = kf
	}
	if len(stale) > 0 {
		cov["known_findings_not_reproduced_on_this_run"] = stale
	}
	ev := map[string]interface{}{
		"property_id": c.ID,
		"tier":        c.Tier,
		"seed":        c.Seed,
		"level":       c.Level,
		"coverage":    cov,
		"assumptions": c.Assumptions,
		"wall_s":      time.Since(c.start).Seconds(),
		"violations":  len(c.viols),
	}
	if c.Assumptions == nil {
		ev["assumptions"] = []string{}
	}
	evdir := filepath.Join(Root, "evidence")
	if d := os.Getenv("VERIF_EVIDENCE_DIR"); d != "" {
		evdir = d // runs against deliberately broken trees must not overwrite the evidence of the real tree
	}
	os.MkdirAll(evdir, 0o755)
	js, err := json.MarshalIndent(ev, "", " ")
	if err != nil {
		fmt.Println("evidence marshal error:", err)
		return 2
	}
	if err := os.WriteFile(filepath.Join(evdir, c.ID+".json"), js, 0o644); err != nil {
		fmt.Println("evidence write error:", err)
		return 2
	}
	if len(c.broken) > 0 {
		for _, b := range c.broken {
			fmt.Println("CHECK-BROKEN:", oneLine(b))
		}
		if len(c.viols) == 0 {
			return 2
		}
	}
	if len(c.viols) == 0 {
		return 0
	}
	dir := filepath.Join(Root, "replays", c.ID)
	if d := os.Getenv("VERIF_REPLAY_DIR"); d != "" {
		dir = filepath.Join(d, c.ID) // runs against deliberately broken trees keep their replays apart
	}
	os.MkdirAll(dir, 0o755)
	for _, v := range c.viols {
		h := sha1.Sum([]byte(v.Key))
		path := filepath.Join(dir, hex.EncodeToString(h[:6])+".json")
		rj, _ := json.MarshalIndent(map[string]interface{}{"property": c.ID, "key": v.Key, "what": v.What, "replay": v.Replay}, "", " ")
		os.WriteFile(path, rj, 0o644)
		fmt.Printf("VIOLATION property=%s replay=%s key=%s :: %s\n", c.ID, path, v.Key, oneLine(v.What))
	}
	return 1
}

func oneLine(s string) string {
	s = strings.ReplaceAll(s, "\n", " | ")
	if len(s) > 400 {
		s = s[:400] + "…"
	}
	return s
}
