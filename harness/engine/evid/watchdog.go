package evid

import (
	"fmt"
	"os"
	"sync"
	"sync/atomic"
	"syscall"
	"time"
)

// Liveness watchdog. The sequential engines call the library in-process: an operation of a broken
// library that never returns (an eviction loop that cannot find its victim, a scan over a corrupted
// chain) would hang the check, which is neither a verdict nor a broken check. Harness code brackets
// every library call with OpStart/OpDone; if one call has been running for WatchdogLimit the check
// reports it as a violation ("does not return") and exits 1. The limit is two minutes for an
// operation that takes microseconds: it is a liveness guard, not a timing oracle.
var WatchdogLimit = 120 * time.Second

type opRec struct {
	label string
	since time.Time
}

var curOps sync.Map // goroutine-ish token -> *opRec
var opSeq int64

// OpStart registers a library call; the returned function ends it.
func OpStart(label func() string) func() {
	id := atomic.AddInt64(&opSeq, 1)
	curOps.Store(id, &opRecLazy{label: label, since: time.Now()})
	return func() { curOps.Delete(id) }
}

type opRecLazy struct {
	label func() string
	since time.Time
}

// cpuSeconds returns the CPU time (user + system) this process has consumed so far.
func cpuSeconds() float64 {
	var ru syscall.Rusage
	if err := syscall.Getrusage(syscall.RUSAGE_SELF, &ru); err != nil {
		return 0
	}
	return float64(ru.Utime.Sec+ru.Stime.Sec) + float64(ru.Utime.Usec+ru.Stime.Usec)/1e6
}

// StartWatchdog arms the watchdog for this process. A call counts as "does not return" when it has
// been running for WatchdogLimit of wall time AND the process has burnt at least WatchdogCPU seconds
// of CPU since the watchdog first saw it running: a loop that never ends consumes CPU, whereas a
// machine that is out of memory or suspended stalls every process without any of them computing -
// that must not be taken for a verdict about the library.
var WatchdogCPU = 60.0

func StartWatchdog(c *Ctx) {
	go func() {
		firstSeen := map[*opRecLazy]float64{} // CPU seconds of the process when the call was first seen old
		for {
			time.Sleep(2 * time.Second)
			now := cpuSeconds()
			var stuck *opRecLazy
			alive := map[*opRecLazy]bool{}
			curOps.Range(func(_, v interface{}) bool {
				r := v.(*opRecLazy)
				if time.Since(r.since) < 10*time.Second {
					return true
				}
				alive[r] = true
				if _, ok := firstSeen[r]; !ok {
					firstSeen[r] = now
				}
				if time.Since(r.since) > WatchdogLimit && now-firstSeen[r] >= WatchdogCPU {
					stuck = r
					return false
				}
				return true
			})
			for r := range firstSeen {
				if !alive[r] {
					delete(firstSeen, r)
				}
			}
			if stuck == nil {
				continue
			}
			what := "a library call"
			func() {
				defer func() { recover() }()
				what = stuck.label()
			}()
			c.Violation(c.ID+":does-not-return", fmt.Sprintf("%s has not returned for %v while the process kept computing (a loop that never ends): the check stops here", what, WatchdogLimit), map[string]interface{}{"call": what})
			var code int
			if os.Getenv("VERIF_WORKER") != "" || os.Getenv("VERIF_RACE_WORKER") != "" {
				code = c.FinishWorker()
				if code == 0 {
					code = 1
				}
			} else {
				code = c.Finish()
			}
			os.Exit(code)
		}
	}()
}
