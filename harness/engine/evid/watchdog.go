package evid

import (
	"fmt"
	"os"
	"sync"
	"sync/atomic"
	"time"
)

// Liveness watchdog. The sequential engines call the library in-process: an operation of a broken
// library that never returns (an eviction loop that cannot find its victim, a scan over a corrupted
// chain) would hang the check, which is neither a verdict nor a broken check. Harness code brackets
// every library call with OpStart/OpDone; if one call has been running for WatchdogLimit the check
// reports it as a violation ("does not return") and exits 1. The limit is two minutes for an
// operation that takes microseconds: it is a liveness guard, not a timing oracle.
var WatchdogLimit = 120 * time.Second

type opRec struct {
	label string
	since time.Time
}

var curOps sync.Map // goroutine-ish token -> *opRec
var opSeq int64

// OpStart registers a library call; the returned function ends it.
func OpStart(label func() string) func() {
	id := atomic.AddInt64(&opSeq, 1)
	curOps.Store(id, &opRecLazy{label: label, since: time.Now()})
	return func() { curOps.Delete(id) }
}

type opRecLazy struct {
	label func() string
	since time.Time
}

// StartWatchdog arms the watchdog for this process.
func StartWatchdog(c *Ctx) {
	go func() {
		for {
			time.Sleep(2 * time.Second)
			var stuck *opRecLazy
			curOps.Range(func(_, v interface{}) bool {
				r := v.(*opRecLazy)
				if time.Since(r.since) > WatchdogLimit {
					stuck = r
					return false
				}
				return true
			})
			if stuck == nil {
				continue
			}
			what := "a library call"
			func() {
				defer func() { recover() }()
				what = stuck.label()
			}()
			c.Violation(c.ID+":does-not-return", fmt.Sprintf("%s has not returned for %v (a loop that never ends): the check stops here", what, WatchdogLimit), map[string]interface{}{"call": what})
			var code int
			if os.Getenv("VERIF_WORKER") != "" || os.Getenv("VERIF_RACE_WORKER") != "" {
				code = c.FinishWorker()
				if code == 0 {
					code = 1
				}
			} else {
				code = c.Finish()
			}
			os.Exit(code)
		}
	}()
}
