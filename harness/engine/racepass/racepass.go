// Package racepass runs E1 scenarios in the race mode (see shim/sched/race_on.go): every schedule of
// each scenario is executed in the -race build and the detector's reports that concern two accesses of
// golib code are collected per call site.
package racepass

import (
	"sort"
	"strings"

	"verif/engine/dfs"
	"verif/engine/evid"
	"verif/engine/racelog"
	"verif/engine/shard"

	"github.com/whatap/golib/verifshim/sched"
)

type Item struct {
	Name string
	Sc   dfs.Scenario
	Cfg  dfs.Config
}

type Found struct {
	Rep     racelog.Report
	Item    string
	Choices []int
	N       int
}

// Key names a finding by its call site: the function containing the unordered read for a
// read/write race, the pair of functions for a write/write race.
func Key(r racelog.Report) string {
	a, b := Method(r.Sites[0]), Method(r.Sites[1])
	switch {
	case r.Kinds[0] == "Read" && r.Kinds[1] == "Write":
		return "unordered-read-in:" + a
	case r.Kinds[0] == "Write" && r.Kinds[1] == "Read":
		return "unordered-read-in:" + b
	}
	if a > b {
		a, b = b, a
	}
	return "write-write:" + a + "~" + b
}

// Method reduces a symbol to Type.method (or the function name).
func Method(fn string) string {
	if i := strings.LastIndex(fn, "/"); i >= 0 {
		fn = fn[i+1:]
	}
	if i := strings.Index(fn, "."); i >= 0 {
		fn = fn[i+1:]
	}
	fn = strings.ReplaceAll(fn, "(*", "")
	fn = strings.ReplaceAll(fn, ")", "")
	return fn
}

// Worker explores the items dealt to this race worker and returns the library races found, by Key.
func Worker(c *evid.Ctx, items []Item) map[string]*Found {
	if !sched.RaceOn {
		c.Broken("race worker started in a binary built without -race")
		return nil
	}
	w := shard.RaceWorker()
	lg, err := racelog.Open()
	if err != nil {
		c.Broken(err.Error())
		return nil
	}
	lg.New()
	seen := map[string]*Found{}
	ignored := map[string]int{}
	for i, it := range items {
		if i%w.N != w.I {
			continue
		}
		it := it
		var cur *sched.Exec
		var got []racelog.Report
		sc := func(x *sched.Exec) func() string {
			cur = x
			after := it.Sc(x)
			x.PreTeardown = func() { got = append(got, lg.New()...) }
			return func() string {
				if after != nil {
					after() // the scenario's own oracle is the business of the ordinary build; its clean-up is needed
				}
				for _, r := range got {
					if !r.Lib() {
						ignored[Method(r.Sites[0])+" ~ "+Method(r.Sites[1])]++
						continue
					}
					k := Key(r)
					if f := seen[k]; f != nil {
						f.N++
					} else {
						seen[k] = &Found{Rep: r, Item: it.Name, Choices: append([]int{}, cur.Choices...), N: 1}
					}
				}
				got = got[:0]
				return ""
			}
		}
		st, _, err := dfs.Explore(sc, it.Cfg, false)
		if err != nil {
			c.Violation(c.ID+":race:harness-error", err.Error()+" in "+it.Name, nil)
			continue
		}
		lg.New()
		c.Count("race_scenarios", 1)
		c.Count("race_schedules", int64(st.Executions))
		c.Count("race_transitions", int64(st.Steps))
	}
	var ks []string
	for k := range ignored {
		if strings.Contains(k, ".func") {
			continue // closures of the harness scenario itself
		}
		ks = append(ks, k)
	}
	sort.Strings(ks)
	if len(ks) > 0 {
		c.Info("race reports not between two library functions (harness/shim bookkeeping, ignored): %s", strings.Join(ks, "; "))
	}
	return seen
}
