// Package dfs is engine E1's search driver: stateless depth-first enumeration of all executions of a
// scenario under the cooperative scheduler, within a preemption bound and a fault bound.
package dfs

import (
	"fmt"
	"time"

	"github.com/whatap/golib/verifshim/sched"
)

type Config struct {
	Preemptions int // max preemptions (-1 = unbounded)
	Faults      int // max non-default environment answers (-1 = unbounded)
	StepCap     int // per-execution scheduler steps
	MaxExec     int // cap on executions (0 = none); hitting it makes the result non-exhaustive
	// Deadline (zero = none) is a wall-clock budget for the thorough tiers: once it has passed the
	// search stops and the result is non-exhaustive (Capped). It never influences a verdict.
	Deadline time.Time
	// ShardI/ShardN split the search over processes: the subtrees below the root execution are
	// dealt round-robin; shard 0 also owns the root execution itself. ShardN == 0 means no sharding.
	ShardI, ShardN int
}

type Stats struct {
	Executions  int
	Steps       int
	Points      int
	Deadlocks   int
	StepCapHits int
	Capped      bool // MaxExec hit
	MaxDepth    int
}

func (s *Stats) Add(o Stats) {
	s.Executions += o.Executions
	s.Steps += o.Steps
	s.Points += o.Points
	s.Deadlocks += o.Deadlocks
	s.StepCapHits += o.StepCapHits
	s.Capped = s.Capped || o.Capped
	if o.MaxDepth > s.MaxDepth {
		s.MaxDepth = o.MaxDepth
	}
}

// Scenario builds the closed system inside a fresh execution: it spawns the threads on x and
// returns a function evaluated after the run (the oracle); a non-empty verdict is a violation.
type Scenario func(x *sched.Exec) (after func() string)

type Violation struct {
	Choices []int
	Verdict string
	Trace   []string
}

// RunOne executes the scenario once following prefix.
func RunOne(sc Scenario, prefix []int, stepCap int, trace bool) (*sched.Exec, string) {
	x := sched.Begin(prefix, stepCap)
	x.TraceOn = trace
	after := sc(x)
	x.Run()
	if x.Diverged != "" {
		return x, ""
	}
	v := ""
	if after != nil {
		v = after()
	}
	return x, v
}

// Explore enumerates all executions within the bounds. It stops at the first violation (after
// confirming that replaying its choice list reproduces the same verdict) unless all is set.
func Explore(sc Scenario, cfg Config, all bool) (Stats, []Violation, error) {
	var st Stats
	var viols []Violation
	type node struct {
		prefix []int
		ndev   int // deviations from the default schedule so far
	}
	const splitDepth = 2
	stack := []node{{nil, 0}}
	assign := 0
	for len(stack) > 0 {
		nd := stack[len(stack)-1]
		stack = stack[:len(stack)-1]
		prefix := nd.prefix
		if cfg.MaxExec > 0 && st.Executions >= cfg.MaxExec {
			st.Capped = true
			break
		}
		if !cfg.Deadline.IsZero() && st.Executions%64 == 0 && time.Now().After(cfg.Deadline) {
			st.Capped = true
			break
		}
		// sharding: nodes above the split depth are run by every shard (to find the subtrees) but
		// counted and judged by shard 0 only; subtrees rooted at the split depth are dealt round-robin
		shared := cfg.ShardN > 1 && nd.ndev < splitDepth
		mine := true
		if cfg.ShardN > 1 && nd.ndev == splitDepth {
			mine = assign%cfg.ShardN == cfg.ShardI
			assign++
			if !mine {
				continue
			}
		}
		x, verdict := RunOne(sc, prefix, cfg.StepCap, false)
		if x.Diverged != "" {
			return st, viols, fmt.Errorf("nondeterminism: %s (prefix %v)", x.Diverged, prefix)
		}
		if shared && cfg.ShardI != 0 {
			verdict = ""
		} else {
			st.Executions++
			st.Steps += x.Steps
			st.Points += len(x.Points)
			if len(x.Points) > st.MaxDepth {
				st.MaxDepth = len(x.Points)
			}
			if x.Deadlock {
				st.Deadlocks++
			}
			if x.HitStepCap {
				st.StepCapHits++
			}
		}
		if verdict != "" {
			// confirm determinism of the failure before believing it
			x2, v2 := RunOne(sc, x.Choices, cfg.StepCap, true)
			if x2.Diverged != "" || v2 != verdict {
				return st, viols, fmt.Errorf("nondeterminism: violating schedule %v does not replay (%q vs %q; %s)", x.Choices, verdict, v2, x2.Diverged)
			}
			viols = append(viols, Violation{Choices: append([]int{}, x.Choices...), Verdict: verdict, Trace: x2.Trace})
			if !all {
				return st, viols, nil
			}
		}
		// children: deviate at every point after the prefix
		pre, fl := x.Costs(len(prefix))
		for i := len(prefix); i < len(x.Points); i++ {
			p := x.Points[i]
			for alt := p.N - 1; alt >= 1; alt-- {
				dp, df := p.Cost(alt)
				if cfg.Preemptions >= 0 && pre+dp > cfg.Preemptions {
					continue
				}
				if cfg.Faults >= 0 && fl+df > cfg.Faults {
					continue
				}
				child := make([]int, i+1)
				copy(child, x.Choices[:i])
				child[i] = alt
				stack = append(stack, node{child, nd.ndev + 1})
			}
			// choice 0 was taken at i: cost 0, bounds unchanged
		}
	}
	return st, viols, nil
}

// Solo runs fn as the only thread of a scheduler execution (default schedule). It reports whether
// fn blocked forever — sequential reference runs use it so that a self-deadlock in the code under
// test cannot hang the checker.
func Solo(fn func(), stepCap int) (blocked bool, where []string) {
	x := sched.Begin(nil, stepCap)
	x.Spawn("solo", fn)
	x.Run()
	return x.Deadlock || x.HitStepCap, x.Blocked
}
