package enum

import (
	"fmt"
	"math"
	"reflect"
	"strings"
	"unsafe"
)

// Filler populates arbitrary Go structs by reflection (exported and unexported fields) from
// per-kind value alphabets, for the k-deviation enumeration of structured messages:
// alternative 0 of every slot keeps what the constructor left there, alternative 1 is a "typical"
// value that is distinct per slot, the others are boundary values of the kind.
//
// A Filler run is driven by a choice function: Fill(obj, choose) walks the object deterministically
// and asks choose(slot, n) which alternative to apply. A dry run with the recording choice function
// lists the slots of a base object.
type Filler struct {
	// Hints supply alternatives for fields the generic walker cannot populate (containers with
	// pack-specific value types, interfaces, nested messages). Key: "Owner.Field" or the Go type string.
	// Each alternative is a builder; alternative 0 (keep) is implicit.
	Hints map[string][]func(ord int) interface{}
	// Skip says which fields to leave alone.
	Skip func(owner reflect.Type, f reflect.StructField) bool

	choose func(slot string, n int) int
	ord    int
	Slots  []Slot // filled by the last run
}

type Slot struct {
	Path string
	N    int
	Kind string
}

func (f *Filler) Fill(obj interface{}, choose func(slot string, n int) int) {
	f.choose = choose
	f.ord = 0
	f.Slots = f.Slots[:0]
	v := reflect.ValueOf(obj)
	if v.Kind() != reflect.Ptr {
		panic("Fill needs a pointer")
	}
	f.walk(v.Elem(), "", nil, "")
}

func settable(v reflect.Value) reflect.Value {
	if v.CanSet() {
		return v
	}
	return reflect.NewAt(v.Type(), unsafe.Pointer(v.UnsafeAddr())).Elem()
}

func (f *Filler) pick(path, kind string, n int) int {
	f.Slots = append(f.Slots, Slot{path, n, kind})
	c := f.choose(path, n)
	if c < 0 || c >= n {
		c = 0
	}
	return c
}

func isMutex(t reflect.Type) bool {
	n := t.Name()
	return (n == "Mutex" || n == "RWMutex" || n == "Cond") && (t.PkgPath() == "sync" || strings.HasSuffix(t.PkgPath(), "vsync"))
}

func (f *Filler) walk(v reflect.Value, path string, owner reflect.Type, field string) {
	t := v.Type()
	if strings.Count(path, ".")+strings.Count(path, "[") > 6 {
		return // recursive types: bounded depth
	}
	f.ord++
	ord := f.ord
	// hints first: by Owner.Field, then by type
	if owner != nil {
		if hs, ok := f.Hints[owner.Name()+"."+field]; ok {
			f.applyHint(v, path, hs, ord)
			return
		}
	}
	if hs, ok := f.Hints[t.String()]; ok {
		f.applyHint(v, path, hs, ord)
		return
	}
	switch v.Kind() {
	case reflect.Struct:
		if isMutex(t) {
			return
		}
		for i := 0; i < v.NumField(); i++ {
			sf := t.Field(i)
			if f.Skip != nil && f.Skip(t, sf) {
				continue
			}
			p := sf.Name
			if path != "" {
				p = path + "." + sf.Name
			}
			f.walk(v.Field(i), p, t, sf.Name)
		}
	case reflect.Ptr:
		et := t.Elem()
		switch et.Kind() {
		case reflect.Struct:
			// optional sub-structure: keep / allocate (then fill its fields) / nil only if the
			// constructor left it nil (constructor invariants are preserved)
			wasNil := v.IsNil()
			if wasNil {
				c := f.pick(path, "present", 2)
				if c == 0 {
					return
				}
				settable(v).Set(reflect.New(et))
			}
			f.walk(v.Elem(), path, owner, field)
		case reflect.String:
			alts := scalarAlts(et, ord)
			c := f.pick(path, "*string", len(alts)+1)
			if c == 0 {
				return
			}
			p := reflect.New(et)
			p.Elem().Set(alts[c-1])
			settable(v).Set(p)
		}
	case reflect.Slice:
		et := t.Elem()
		if et.Kind() == reflect.Struct || (et.Kind() == reflect.Ptr && et.Elem().Kind() == reflect.Struct) {
			// list of sub-structures: keep / 1 element / 3 elements (elements filled recursively)
			c := f.pick(path+"[]", "len", 3)
			n := []int{-1, 1, 3}[c]
			if n < 0 {
				return
			}
			s := reflect.MakeSlice(t, n, n)
			for i := 0; i < n; i++ {
				el := s.Index(i)
				if et.Kind() == reflect.Ptr {
					el.Set(reflect.New(et.Elem()))
					el = el.Elem()
				}
				f.walk(el, fmt.Sprintf("%s[%d]", path, i), owner, field)
			}
			settable(v).Set(s)
			return
		}
		if v.Len() > 0 && !v.IsNil() {
			// fixed-length array set up by the constructor: deviate single elements only
			alts := scalarAlts(et, ord)
			if alts == nil {
				return
			}
			for _, idx := range []int{0, v.Len() - 1} {
				c := f.pick(fmt.Sprintf("%s[%d]", path, idx), et.Kind().String(), len(alts)+1)
				if c > 0 {
					settable(v.Index(idx)).Set(alts[c-1])
				}
			}
			return
		}
		alts := sliceAlts(t, ord)
		if alts == nil {
			return
		}
		c := f.pick(path, t.String(), len(alts)+1)
		if c > 0 {
			settable(v).Set(alts[c-1])
		}
	case reflect.Interface, reflect.Map, reflect.Func, reflect.Chan:
		// needs a hint
	default:
		alts := scalarAlts(t, ord)
		if alts == nil {
			return
		}
		c := f.pick(path, t.Kind().String(), len(alts)+1)
		if c > 0 {
			settable(v).Set(alts[c-1])
		}
	}
}

func (f *Filler) applyHint(v reflect.Value, path string, hs []func(ord int) interface{}, ord int) {
	c := f.pick(path, "hint:"+v.Type().String(), len(hs)+1)
	if c == 0 {
		return
	}
	val := hs[c-1](ord)
	if val == nil {
		// nil is offered only where the constructor left nil (constructor invariants are preserved)
		switch v.Kind() {
		case reflect.Ptr, reflect.Slice, reflect.Interface, reflect.Map:
			if !v.IsNil() {
				return
			}
		}
		settable(v).Set(reflect.Zero(v.Type()))
		return
	}
	settable(v).Set(reflect.ValueOf(val).Convert(v.Type()))
}

func rv(x interface{}, t reflect.Type) reflect.Value { return reflect.ValueOf(x).Convert(t) }

// scalarAlts: alternative 1 is the typical value (distinct per slot), then boundary values.
func scalarAlts(t reflect.Type, ord int) []reflect.Value {
	var xs []interface{}
	switch t.Kind() {
	case reflect.Bool:
		xs = []interface{}{true, false}
	case reflect.Uint8:
		xs = []interface{}{uint8(10 + ord%100), uint8(0), uint8(1), uint8(0x7f), uint8(0x80), uint8(0xff)}
	case reflect.Int8:
		xs = []interface{}{int8(10 + ord%100), int8(0), int8(-1), int8(127), int8(-128)}
	case reflect.Int16:
		xs = []interface{}{int16(300 + ord), int16(0), int16(1), int16(-1), int16(127), int16(128), int16(math.MaxInt16), int16(math.MinInt16)}
	case reflect.Uint16:
		xs = []interface{}{uint16(300 + ord), uint16(0), uint16(1), uint16(0x7fff), uint16(0x8000), uint16(0xffff)}
	case reflect.Int32:
		xs = []interface{}{int32(70000 + ord), int32(0), int32(1), int32(-1), int32(127), int32(128), int32(-129), int32(32768), int32(8388607), int32(8388608), int32(math.MaxInt32), int32(math.MinInt32)}
	case reflect.Uint32:
		xs = []interface{}{uint32(70000 + ord), uint32(0), uint32(1), uint32(0x7fffffff), uint32(0x80000000), uint32(0xffffffff)}
	case reflect.Int64:
		xs = []interface{}{int64(5000000000 + int64(ord)), int64(0), int64(1), int64(-1), int64(127), int64(128), int64(-32769), int64(8388608), int64(math.MaxInt32) + 1, int64(0x7fffffffff), int64(0x8000000000), int64(math.MaxInt64), int64(math.MinInt64)}
	case reflect.Uint64:
		xs = []interface{}{uint64(5000000000 + uint64(ord)), uint64(0), uint64(1), uint64(1) << 63, ^uint64(0)}
	case reflect.Int:
		xs = []interface{}{1000 + ord, 0, 1, -1, 255, 65536, math.MaxInt32, math.MinInt32}
	case reflect.Float32:
		xs = []interface{}{float32(ord) + 0.5, float32(0), float32(-1), float32(math.MaxFloat32), float32(math.SmallestNonzeroFloat32), float32(math.Inf(-1))}
	case reflect.Float64:
		xs = []interface{}{float64(ord) + 0.25, float64(0), float64(-1), math.MaxFloat64, math.SmallestNonzeroFloat64, math.Inf(1)}
	case reflect.String:
		xs = []interface{}{fmt.Sprintf("s%d", ord), "", "a", strings.Repeat("x", 253), strings.Repeat("y", 254), "한글 텍스트"}
	default:
		return nil
	}
	out := make([]reflect.Value, len(xs))
	for i, x := range xs {
		out[i] = rv(x, t)
	}
	return out
}

func sliceAlts(t reflect.Type, ord int) []reflect.Value {
	et := t.Elem()
	el := scalarAlts(et, ord)
	if el == nil {
		return nil
	}
	mk := func(vals ...reflect.Value) reflect.Value {
		s := reflect.MakeSlice(t, len(vals), len(vals))
		for i, v := range vals {
			s.Index(i).Set(v)
		}
		return s
	}
	out := []reflect.Value{mk(el[0], el[len(el)-1]), reflect.Zero(t), mk(), mk(el[0])}
	if len(el) >= 4 {
		out = append(out, mk(el[1], el[2], el[3]))
	}
	if et.Kind() == reflect.Uint8 {
		big := reflect.MakeSlice(t, 254, 254)
		out = append(out, big)
		big2 := reflect.MakeSlice(t, 253, 253)
		big2.Index(252).Set(rv(uint8(9), et))
		out = append(out, big2)
	}
	return out
}

// DeepDiff names the first field at which two values differ (nil == empty for slices, floats by
// bits); "" when equal. Used for diagnostics and keys, not as an oracle.
func DeepDiff(a, b reflect.Value, path string, depth int) string {
	if depth > 12 {
		return ""
	}
	if a.IsValid() != b.IsValid() {
		return path
	}
	if !a.IsValid() {
		return ""
	}
	if a.Type() != b.Type() {
		return path + "(type)"
	}
	switch a.Kind() {
	case reflect.Ptr, reflect.Interface:
		if a.IsNil() || b.IsNil() {
			if a.IsNil() != b.IsNil() {
				return path
			}
			return ""
		}
		return DeepDiff(a.Elem(), b.Elem(), path, depth+1)
	case reflect.Struct:
		if isMutex(a.Type()) {
			return ""
		}
		for i := 0; i < a.NumField(); i++ {
			p := a.Type().Field(i).Name
			if path != "" {
				p = path + "." + p
			}
			if d := DeepDiff(a.Field(i), b.Field(i), p, depth+1); d != "" {
				return d
			}
		}
	case reflect.Slice:
		if a.Len() != b.Len() {
			return path + "(len)"
		}
		for i := 0; i < a.Len(); i++ {
			if d := DeepDiff(a.Index(i), b.Index(i), fmt.Sprintf("%s[%d]", path, i), depth+1); d != "" {
				return d
			}
		}
	case reflect.Float32, reflect.Float64:
		if math.Float64bits(a.Float()) != math.Float64bits(b.Float()) {
			return path
		}
	case reflect.Bool:
		if a.Bool() != b.Bool() {
			return path
		}
	case reflect.String:
		if a.String() != b.String() {
			return path
		}
	case reflect.Int, reflect.Int8, reflect.Int16, reflect.Int32, reflect.Int64:
		if a.Int() != b.Int() {
			return path
		}
	case reflect.Uint, reflect.Uint8, reflect.Uint16, reflect.Uint32, reflect.Uint64:
		if a.Uint() != b.Uint() {
			return path
		}
	}
	return ""
}
