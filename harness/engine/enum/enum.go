// Package enum is engine E3: deterministic, complete enumerators of bounded input spaces —
// boundary alphabets for wide integer and float domains, parallel full-range sweeps.
package enum

import (
	"math"
	"runtime"
	"sort"
	"sync"
)

// Int64Boundaries: 0, ±1, ±2^k, ±2^k±1 for all k, the decimal length-class borders ±1, walking bytes.
func Int64Boundaries() []int64 {
	set := map[int64]bool{0: true, 1: true, -1: true, math.MaxInt64: true, math.MinInt64: true}
	for k := 0; k < 63; k++ {
		p := int64(1) << uint(k)
		for _, d := range []int64{-2, -1, 0, 1, 2} {
			set[p+d] = true
			set[-p+d] = true
		}
	}
	for _, b := range []int64{math.MaxInt8, math.MinInt8, math.MaxInt16, math.MinInt16, 0x7fffff, -0x800000, math.MaxInt32, math.MinInt32, 0x7fffffffff, -0x8000000000} {
		for d := int64(-2); d <= 2; d++ {
			set[b+d] = true
		}
	}
	// walking bytes: each byte in {00,7f,80,ff} with the others 00 or ff
	for pos := 0; pos < 8; pos++ {
		for _, bv := range []uint64{0x00, 0x7f, 0x80, 0xff} {
			for _, fill := range []uint64{0, 0xffffffffffffffff} {
				v := fill&^(uint64(0xff)<<(8*uint(pos))) | bv<<(8*uint(pos))
				set[int64(v)] = true
			}
		}
	}
	out := make([]int64, 0, len(set))
	for v := range set {
		out = append(out, v)
	}
	sort.Slice(out, func(i, j int) bool { return out[i] < out[j] })
	return out
}

// Int32Boundaries is the 32-bit projection.
func Int32Boundaries() []int32 {
	set := map[int32]bool{}
	for _, v := range Int64Boundaries() {
		if v >= math.MinInt32 && v <= math.MaxInt32 {
			set[int32(v)] = true
		}
		set[int32(uint32(uint64(v)))] = true
	}
	out := make([]int32, 0, len(set))
	for v := range set {
		out = append(out, v)
	}
	sort.Slice(out, func(i, j int) bool { return out[i] < out[j] })
	return out
}

// Float64Bits: ±0, ±1, extremes, subnormals, ±Inf, every single NaN payload bit with both signs.
func Float64Bits() []uint64 {
	set := map[uint64]bool{}
	for _, f := range []float64{0, math.Copysign(0, -1), 1, -1, 1.5, math.MaxFloat64, -math.MaxFloat64, math.SmallestNonzeroFloat64, math.Inf(1), math.Inf(-1), math.Pi} {
		set[math.Float64bits(f)] = true
	}
	for bit := 0; bit < 52; bit++ {
		for _, sign := range []uint64{0, 1 << 63} {
			set[sign|0x7ff0000000000000|1<<uint(bit)] = true
		}
	}
	set[0x7ff8000000000001] = true
	set[0xffffffffffffffff] = true
	out := make([]uint64, 0, len(set))
	for v := range set {
		out = append(out, v)
	}
	sort.Slice(out, func(i, j int) bool { return out[i] < out[j] })
	return out
}

func Float32Bits() []uint32 {
	set := map[uint32]bool{}
	for _, f := range []float32{0, float32(math.Copysign(0, -1)), 1, -1, 1.5, math.MaxFloat32, -math.MaxFloat32, math.SmallestNonzeroFloat32, float32(math.Inf(1)), float32(math.Inf(-1))} {
		set[math.Float32bits(f)] = true
	}
	for bit := 0; bit < 23; bit++ {
		for _, sign := range []uint32{0, 1 << 31} {
			set[sign|0x7f800000|1<<uint(bit)] = true
		}
	}
	set[0xffffffff] = true
	out := make([]uint32, 0, len(set))
	for v := range set {
		out = append(out, v)
	}
	sort.Slice(out, func(i, j int) bool { return out[i] < out[j] })
	return out
}

// OnPanic, when set, receives a panic that escaped f in a ParallelRange worker (the chunk is
// abandoned, the other chunks continue); when nil the panic propagates and ends the process.
var OnPanic func(r interface{}, stack string)

// ParallelRange calls f(lo, hi) on consecutive chunks of [0, n) from GOMAXPROCS goroutines.
func ParallelRange(n uint64, f func(lo, hi uint64)) {
	nw := uint64(runtime.GOMAXPROCS(0))
	chunk := (n + nw*8 - 1) / (nw * 8)
	if chunk == 0 {
		chunk = 1
	}
	var wg sync.WaitGroup
	ch := make(chan [2]uint64, 64)
	for w := uint64(0); w < nw; w++ {
		wg.Add(1)
		go func() {
			defer wg.Done()
			for r := range ch {
				func() {
					if OnPanic != nil {
						defer func() {
							if p := recover(); p != nil {
								buf := make([]byte, 8192)
								OnPanic(p, string(buf[:runtime.Stack(buf, false)]))
							}
						}()
					}
					f(r[0], r[1])
				}()
			}
		}()
	}
	for lo := uint64(0); lo < n; lo += chunk {
		hi := lo + chunk
		if hi > n {
			hi = n
		}
		ch <- [2]uint64{lo, hi}
	}
	close(ch)
	wg.Wait()
}
