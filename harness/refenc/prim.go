// Package refenc holds the independent reference encoders: written from the format description in
// DESIGN.md Appendix C with encoding/binary, math/bits and hash/crc32 — not by copying golib's
// writers — so that a change applied consistently to golib's writer and reader is still caught.
package refenc

import (
	"encoding/binary"
	"hash/crc32"
	"math"
	"math/bits"
)

type B []byte

func (b *B) U8(v uint8) { *b = append(*b, v) }
func (b *B) Bool(v bool) {
	if v {
		b.U8(1)
	} else {
		b.U8(0)
	}
}
func (b *B) I16(v int16)   { *b = binary.BigEndian.AppendUint16(*b, uint16(v)) }
func (b *B) U16(v uint16)  { *b = binary.BigEndian.AppendUint16(*b, v) }
func (b *B) I32(v int32)   { *b = binary.BigEndian.AppendUint32(*b, uint32(v)) }
func (b *B) U32(v uint32)  { *b = binary.BigEndian.AppendUint32(*b, v) }
func (b *B) I64(v int64)   { *b = binary.BigEndian.AppendUint64(*b, uint64(v)) }
func (b *B) F32(v float32) { b.U32(math.Float32bits(v)) }
func (b *B) F64(v float64) { *b = binary.BigEndian.AppendUint64(*b, math.Float64bits(v)) }

// I24 / I40: low 3 / 5 bytes of the two's complement representation, most significant first.
func (b *B) I24(v int32) {
	var t [4]byte
	binary.BigEndian.PutUint32(t[:], uint32(v))
	*b = append(*b, t[1:]...)
}
func (b *B) I40(v int64) {
	var t [8]byte
	binary.BigEndian.PutUint64(t[:], uint64(v))
	*b = append(*b, t[3:]...)
}
func (b *B) Raw(p []byte) { *b = append(*b, p...) }

// DecLen is the length class of the variable-length decimal: the least L in {0,1,2,3,4,5,8} such
// that v fits in L bytes of two's complement (6 and 7 are never used).
func DecLen(v int64) int {
	if v == 0 {
		return 0
	}
	// significant bits of the sign-folded value, plus the sign bit
	need := bits.Len64(uint64(v^(v>>63))) + 1
	n := (need + 7) / 8
	if n > 5 {
		return 8
	}
	return n
}

func (b *B) Dec(v int64) {
	n := DecLen(v)
	b.U8(uint8(n))
	var t [8]byte
	binary.BigEndian.PutUint64(t[:], uint64(v))
	*b = append(*b, t[8-n:]...)
}

// Blob: u8 n (n<=253) | 0xff u16 n (n<=65535) | 0xfe i32 n, then the bytes; nil == empty == 00.
func (b *B) Blob(p []byte) {
	n := len(p)
	switch {
	case n <= 253:
		b.U8(uint8(n))
	case n <= 65535:
		b.U8(255)
		b.U16(uint16(n))
	default:
		b.U8(254)
		b.I32(int32(n))
	}
	b.Raw(p)
}
func (b *B) Text(s string) { b.Blob([]byte(s)) }

func (b *B) ShortBytes(p []byte) { b.U16(uint16(len(p))); b.Raw(p) }
func (b *B) IntBytes(p []byte)   { b.I32(int32(len(p))); b.Raw(p) }
func (b *B) TextShort(s string)  { b.ShortBytes([]byte(s)) }

func (b *B) ArrI16(a []int16) {
	b.I16(int16(len(a)))
	for _, v := range a {
		b.I16(v)
	}
}
func (b *B) ArrI32(a []int32) {
	b.I16(int16(len(a)))
	for _, v := range a {
		b.I32(v)
	}
}
func (b *B) ArrI64(a []int64) {
	b.I16(int16(len(a)))
	for _, v := range a {
		b.I64(v)
	}
}
func (b *B) ArrF32(a []float32) {
	b.I16(int16(len(a)))
	for _, v := range a {
		b.F32(v)
	}
}
func (b *B) ArrF64(a []float64) {
	b.I16(int16(len(a)))
	for _, v := range a {
		b.F64(v)
	}
}
func (b *B) ArrText(a []string) {
	b.I16(int16(len(a)))
	for _, v := range a {
		b.Text(v)
	}
}

// H64 is the 64-bit table-driven CRC variant used for license and tag hashes:
// crc = (crc >>> 8) ^ signext32to64(T[(crc ^ b) & 0xff]), all-ones start, final inversion,
// T = the IEEE CRC-32 table.
func H64(p []byte) int64 {
	crc := ^uint64(0)
	for _, c := range p {
		crc = crc>>8 ^ uint64(int64(int32(crc32.IEEETable[byte(crc)^c])))
	}
	return int64(^crc)
}

// Frame is one one-way TCP message: source 10, version 0, pcode, license hash, length, payload.
func Frame(pcode int64, license string, payload []byte) []byte {
	var b B
	b.U8(10)
	b.U8(0)
	b.I64(pcode)
	b.I64(H64([]byte(license)))
	b.I32(int32(len(payload)))
	b.Raw(payload)
	return b
}
